#!/usr/bin/env python3
"""Regenerates the generated region of DESIGN.md (defects fixed / recorded, seeded changes)."""
import glob
import json
import os
import re

os.chdir(os.path.dirname(os.path.dirname(os.path.abspath(__file__))))
k = json.load(open("known_findings.json"))
out = []
out.append("#### Defects of costa-group/gasol-optimizer found by the checks and repaired (`fix:` commits in /repo)\n")
out.append("| property | commit | what failed |")
out.append("|---|---|---|")
for f in k["fixed"]:
    m = re.match(r"fixed: property=(\S+) (\S+(?: \+ \S+)?) (.*)", f)
    if m:
        out.append("| %s | `%s` | %s |" % (m.group(1), m.group(2), m.group(3).replace("|", "\\|")))
out.append("")
out.append("#### Recorded findings (open; the check prints KNOWN-FINDING and exits 0)\n")
out.append("| id | property | class | call site | what fails |")
out.append("|---|---|---|---|---|")
for f in k["findings"]:
    out.append("| %s | %s | `%s` | %s | %s |" % (f["id"], f["property"], "/".join(f["class"]), f["call_site"].replace("|", "\\|"), f["what_fails"].replace("|", "\\|")))
out.append("")
out.append("#### Seeded changes (written by independent sub-agents from the property text only) and which checks catch them\n")
out.append("| seed | property | needs, in short | confirmed (applies / demo passes without, fails with / 46 baseline tests pass) | caught by | missed by |")
out.append("|---|---|---|---|---|---|")
for p in sorted(glob.glob("seeded/*/meta.json")):
    m = json.load(open(p))
    c = m.get("confirmed", {})
    conf = "%s / %s,%s / %s" % ("yes" if c.get("patch_applies") else "NO", "yes" if c.get("demo_without_change_exit") == 0 else "NO",
                                "yes" if c.get("demo_with_change_exit") not in (0, None) else "NO", {True: "yes", False: "NO", None: "-"}[c.get("baseline_46_still_pass")])
    caught = [cid for cid, v in sorted(m.get("checks", {}).items()) if v.get("caught")]
    missed = [cid for cid, v in sorted(m.get("checks", {}).items()) if not v.get("caught")]
    needs = (m.get("summary") or m.get("needs", "")).strip().replace("\n", " ")
    needs = re.sub(r"\s+", " ", needs)[:260].replace("|", "\\|")
    note = m.get("note", "")
    out.append("| %s | %s | %s | %s | %s | %s |" % (m["seed"], m["property"], needs + ((" **" + note + "**") if note else ""), conf, ", ".join(caught) or "-", ", ".join(missed) or "-"))
text = open("DESIGN.md").read()
a = text.index("<!-- BEGIN GENERATED -->") + len("<!-- BEGIN GENERATED -->")
b = text.index("<!-- END GENERATED -->")
open("DESIGN.md", "w").write(text[:a] + "\n" + "\n".join(out) + "\n" + text[b:])
print("DESIGN.md tables regenerated: %d fixed, %d open, %d seeds" % (len(k["fixed"]), len(k["findings"]), len(glob.glob("seeded/*/meta.json"))))
