#!/usr/bin/env python3
"""Confirm a seeded change and run checks against it.

usage: try_seed.py <src dir with patch.diff, demo.*, notes.md> <seed name> <property id> [--checks C01,C02] [--no-tests] [--tier quick]
Creates a scratch worktree of /repo under /tmp, confirms: patch applies, demo passes without / fails with the change,
the 46 stable baseline tests still pass with it; then runs the given checks with GASOL_REPO pointing at the scratch tree.
Writes /verif/seeded/<seed name>/{patch.diff,demo.*,notes.md,meta.json} and removes the worktree."""
import json
import os
import shutil
import subprocess
import sys
import time

VERIF = os.path.dirname(os.path.dirname(os.path.abspath(__file__)))


def sh(cmd, cwd=None, env=None, timeout=3600):
    p = subprocess.run(cmd, shell=True, cwd=cwd, env=env, stdout=subprocess.PIPE, stderr=subprocess.STDOUT, timeout=timeout)
    return p.returncode, p.stdout.decode(errors="replace")


def main():
    src, name, pid = sys.argv[1:4]
    args = sys.argv[4:]
    checks = [pid]
    tier = "quick"
    run_tests = "--no-tests" not in args
    for i, a in enumerate(args):
        if a == "--checks":
            checks = args[i + 1].split(",")
        if a == "--tier":
            tier = args[i + 1]
    wt = "/tmp/seedwt-%s" % name
    sh("git -C /repo worktree remove --force %s" % wt)
    rc, out = sh("git -C /repo worktree add -q --detach %s HEAD" % wt)
    assert rc == 0, out
    meta = {"seed": name, "property": pid, "source": "independent sub-agent, given only the property text and a scratch worktree",
            "repo_head": sh("git -C /repo rev-parse --short=8 HEAD")[1].strip(), "confirmed": {}, "checks": {}}
    try:
        demo = next((f for f in sorted(os.listdir(src)) if f.startswith("demo.")), None)
        runner = "/venv/bin/python -W ignore %s" if demo and demo.endswith(".py") else "bash %s"
        # demo without the change
        if demo:
            rel = "_seed"   # the sub-agents write their demonstration for <tree>/_seed/
            os.makedirs(os.path.join(wt, rel), exist_ok=True)
            for f in os.listdir(src):
                if os.path.isfile(os.path.join(src, f)):
                    shutil.copy(os.path.join(src, f), os.path.join(wt, rel, f))
            demo_rel = os.path.join(rel, demo)
            rc0, o0 = sh(runner % demo_rel, cwd=wt, timeout=900)
            meta["confirmed"]["demo_without_change_exit"] = rc0
            if rc0 != 0:
                meta["confirmed"]["demo_without_change_tail"] = o0[-400:]
        rc, out = sh("git apply %s" % os.path.join(os.path.abspath(src), "patch.diff"), cwd=wt)
        meta["confirmed"]["patch_applies"] = rc == 0
        if rc != 0:
            meta["confirmed"]["apply_error"] = out[-500:]
        meta["confirmed"]["files_touched"] = sh("git diff --stat | tail -1", cwd=wt)[1].strip()
        if demo and rc == 0:
            rc1, o1 = sh(runner % demo_rel, cwd=wt, timeout=900)
            meta["confirmed"]["demo_with_change_exit"] = rc1
            meta["confirmed"]["demo_with_change_tail"] = o1[-400:]
        if run_tests and rc == 0:
            t = time.time()
            junit = "/tmp/seedjunit-%s.xml" % name
            sh("/venv/bin/python -m pytest -q -p no:cacheprovider --timeout=900 --continue-on-collection-errors --junitxml=%s" % junit, cwd=wt, timeout=3000)
            rcb, ob = sh("python3 %s/tools/baseline_check.py %s" % (VERIF, junit))
            meta["confirmed"]["baseline_46_still_pass"] = rcb == 0
            meta["confirmed"]["baseline_line"] = ob.strip()[-300:]
            meta["confirmed"]["tests_wall_s"] = int(time.time() - t)
            try:
                os.remove(junit)
            except OSError:
                pass
        if rc == 0:
            sh("rm -rf _seeded; find . -name __pycache__ -prune -exec rm -rf {} +", cwd=wt)
            for c in checks:
                env = dict(os.environ, GASOL_REPO=wt, GSIM_EVIDENCE_DIR="/tmp/seedev-%s" % name, GSIM_OUT="/tmp/seedout-%s" % name)
                t = time.time()
                rcc, oc = sh("%s/bin/vcheck %s --tier %s" % (VERIF, c, tier), cwd=VERIF, env=env, timeout=7200)
                lines = [l.strip() for l in oc.splitlines() if l.strip().startswith("class=")]
                meta["checks"][c] = {"exit": rcc, "caught": rcc == 1 and "VIOLATION property=%s" % c in oc, "wall_s": int(time.time() - t),
                                     "first_classes": [l[:220] for l in lines[:3]], "cmd": "GASOL_REPO=<scratch tree with patch> bin/vcheck %s --tier %s" % (c, tier)}
                # the replay file of the first violation must reproduce it, twice, with the same class
                rp = [l.split("replay=")[1].strip() for l in oc.splitlines() if l.startswith("VIOLATION property=%s" % c)]
                if rp:
                    outs = []
                    for _ in range(2):
                        rcr, orr = sh("%s/bin/vcheck %s --replay %s" % (VERIF, c, rp[0]), cwd=VERIF, env=env, timeout=3600)
                        outs.append((rcr, [l for l in orr.splitlines() if l.startswith("replay:")]))
                    meta["checks"][c]["replay_reproduces"] = outs[0][0] == 1 and outs[0] == outs[1] and any("matches" in l for l in outs[0][1])
                    meta["checks"][c]["replay_lines"] = outs[0][1][:2]
            sh("rm -rf /tmp/seedev-%s /tmp/seedout-%s" % (name, name))
    finally:
        sh("git -C /repo worktree remove --force %s" % wt)
    dst = os.path.join(VERIF, "seeded", name)
    os.makedirs(dst, exist_ok=True)
    for f in os.listdir(src):
        if os.path.isfile(os.path.join(src, f)) and os.path.abspath(src) != os.path.abspath(dst) and f != "meta.json":
            shutil.copy(os.path.join(src, f), os.path.join(dst, f))
    old = {}
    mp = os.path.join(dst, "meta.json")
    if os.path.exists(mp):
        old = json.load(open(mp))
        for k in ("note", "summary"):
            if k in old:
                meta[k] = old[k]
        old_checks = old.get("checks", {})
        old_checks.update(meta["checks"])
        meta["checks"] = old_checks
        if not run_tests and "baseline_46_still_pass" in old.get("confirmed", {}):
            for k in ("baseline_46_still_pass", "baseline_line", "tests_wall_s"):
                if k in old["confirmed"]:
                    meta["confirmed"][k] = old["confirmed"][k]
    try:
        meta["needs"] = open(os.path.join(src, "notes.md")).read()[:1500]
    except OSError:
        pass
    json.dump(meta, open(mp, "w"), indent=1)
    print(json.dumps({"seed": name, "confirmed": {k: v for k, v in meta["confirmed"].items() if "tail" not in k}, "checks": {c: (v["caught"], v["exit"], v["first_classes"][:1]) for c, v in meta["checks"].items()}}, indent=1))


main()
