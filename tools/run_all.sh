#!/bin/bash
# run every registered quick (or $1=thorough) check, print one line per check
cd "$(dirname "$0")/.."
tier=${1:-quick}
for id in $(python3 -c "import json;print(' '.join(c['property_id'] for c in json.load(open('MANIFEST.json'))['checks']))"); do
  s=$(date +%s)
  out=$(bin/vcheck $id --tier $tier 2>&1); rc=$?
  e=$(date +%s)
  echo "$id rc=$rc $((e-s))s $(echo "$out" | grep -c '^VIOLATION') violations $(echo "$out" | grep -c '^KNOWN-FINDING') known | $(echo "$out" | grep "^$id $tier" | cut -c1-140)"
  if [ $rc -ne 0 ]; then echo "$out" | grep -A1 "class=" | head -8; fi
done
