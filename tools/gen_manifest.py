#!/usr/bin/env python3
"""Regenerates MANIFEST.json from the table below (run from /verif)."""
import json

TECH = "deterministic simulation with fault injection"
CHECKS = {
    "C01": ("exploration", "§5 C01",
            "Seeded whole-pipeline simulation (real CLI on SimFS, seeded solver peer, option swarm); every emitted block is compared with its input by a reference EVM interpreter on seeded states. Sampling: a clean batch is evidence, not proof.",
            "Trusts the reference interpreter R1 (gsim/ref/evm.py), z3 4.8.12 as honest peer, sampled 256-bit states; OptiMathSAT is a wire-format stub. A deterministic supplement (rule sweep, pseudo-operand sweep, every block of <= 3 instructions over a 26-word vocabulary) (196 patterns: the rules and near misses of the two-term rules, six shapes each) runs through the same pipeline and oracle in every run.",
            TECH + ": seeded solver-peer replies and option swarm over the real pipeline, reference-interpreter oracle"),
    "C08": ("exploration", "§5 C08",
            "Seeded whole-pipeline simulation with a solver peer biased to tempt the accept/reject logic (non-optimal, cost-maximising, no model/unsat with and without a greedy candidate, greedy forced to fail); every emitted block is priced by the independent cost model R4 and compared with its input; printed totals are compared with R4 sums over the input and the emitted file.",
            "Trusts R4 (gsim/ref/cost.py) as transcription of the documented static cost model; sampled blocks/option sets.",
            TECH + ": peer replies chosen to tempt the acceptance gate, independent cost model as oracle"),
    "C09": ("exploration", "§5 C09",
            "Seeded whole-pipeline simulation on synthetic documents and on windows of the shipped solc outputs; the solver peer succeeds/fails per call with a per-run probability so the stitching code meets every interleaving of replaced and untouched segments; an independent JSON walker compares skeleton entries field by field, metadata, well-formedness of emitted items, and the tool's own parser re-reads each emitted file.",
            "Trusts the independent walker R5 (gsim/ref/asmjson.py, checks/c09.py); PUSH 0 and PUSH0 are treated as the same item; numeric pseudo-push operands are compared as hex numbers.",
            TECH + ": per-sub-block peer success/failure patterns over the real pipeline, independent JSON walker as oracle"),
    "C10": ("fault_enumeration", "§5 C10",
            "Fault-free runs of the real pipeline on nasty-constant bait under CPU/address-space budgets (no exception escapes, output exists), and faulted twin runs in which analysis of a chosen block is made impossible (persistent or n-th-call failure of specification generation; EIO/ENOSPC/EACCES/ENOENT placed on the intermediate-file operations of that block); the faulted output must differ from the fault-free twin only at the faulted block, and the run must finish within a bounded number of simulator events.",
            "Fault kinds are enumerated per base run, fault positions and base runs are sampled; I/O faults on the solver's input file and solver-process failures are explored and counted but are not verdicts (the statement quantifies over analysis failures).",
            TECH + ": placed analysis-time faults (buggify + SimFS errno injection) against a fault-free twin run, CPU/AS budgets"),
    "C12": ("exploration", "§5 C12",
            "Histories as schedule: the real per-block pipeline processes a seeded history of other blocks and then B in one forked process, and B alone in another fork of the pristine worker; specification dictionaries (identifiers included), optimised code, log entry, statistics rows and the keep-or-revert decision must be identical. Failing histories are minimised by dropping members.",
            "Histories of 1..12 blocks with a fixed option set per process; time columns excluded; sampled.",
            TECH + ": seeded call histories in one process versus a fresh fork, field-by-field comparison"),
    "C13": ("exploration", "§5 C13",
            "The same ops are executed in separate interpreters started with different PYTHONHASHSEED values, temp-dir names and simulated clock rates; specification JSON files, logs (greedy id lists), emitted files, CSVs (time columns excluded) and printed totals must have equal digests pairwise.",
            "Greedy back-ends only (the statement is about specification generation and greedy search); 4-5 process schedules per op.",
            TECH + ": process-schedule variation (hash seed, temp dir, clock) with pairwise artefact digests"),
    "C11": ("fault_enumeration", "§5 C11",
            "Op sequences Optimize(-log) -> Replay on the simulated disk: byte-for-byte fidelity of the replay; crash points (kill / power loss) placed on I/O events between the first write of the log and the close of the output file, then Restart + Replay from the surviving image (error, crash-free output, or code equivalent to the input) and Restart + Optimize (must reproduce the crash-free output and log); logs tampered by id substitution/deletion/duplication/permutation/foreign insertion, swapped or renamed keys, truncation and single-bit flips must be rejected or yield R1-equivalent code.",
            "Crash points are sampled inside the write window in the quick tier (enumerated in the thorough tier for windows <= 400 events); tamper edits sampled (<= 3 edits) plus deterministic ones (operands of stores; DUP/SWAP indices in the entries of non-first sub-blocks, with documents that repeat the same code in consecutive sub-blocks); durable-image model in gsim/core/simfs.py; R1 decides equivalence on sampled states.",
            TECH + ": crash-point placement with durable-image model, stored-byte corruption of logs, restart and replay ops"),
    "C14": ("fault_enumeration", "§5 C14",
            "Fault enumeration over solver-peer outcomes per sub-block (all fail / exactly call k succeeds for each k up to 5 / seeded subset / all succeed via greedy) on split-bait blocks for the three policies; recorders at the rebuild and specification seams capture what the real code saw; checks: join of sub-blocks == optimizable instructions, every specification key names a reported sub-block with matching original_instrs, source stack not larger than what precedes it, rebuild == independent positional rebuild, all-fail => emitted block == input. The real rebuild function is additionally driven with harness-chosen replacements for every sub-block (nothing; the empty sequence; the sub-block itself; a neutral pair; a copy of the neighbouring split instruction; two neighbours emptied) and compared with the positional rebuild.",
            "Single-success patterns enumerated up to 5 sub-blocks per block, base blocks sampled; the clause on source-stack sizes is an upper bound only (the front-end drops untouched cells).",
            TECH + ": enumerated per-sub-block peer success/failure patterns, recorders at the rebuild seam, independent positional rebuild"),
    "C17": ("exploration", "§5 C17",
            "Several ops with different PUSH0 settings in one process (the flag is process-wide) on zero-rich blocks; checks per op: no PUSH0 emitted under -push0 unless present in the input, printed initial/optimized totals equal R4 sums priced under the op's own flag, files and totals equal to the same op in a pristine process, and for -c the document/log/rows concern the selected contract only.",
            "Flag histories of length <= 3 with a fixed split mode per process; R4 pricing; PUSH \"0\" and PUSH0 are the same item in JSON.",
            TECH + ": flag-value histories within one process versus a pristine process, independent pricing"),
    "C02": ("exploration", "§5 C02",
            "The schedule quantifier is literal: the real front-end's specification of each sub-block is executed by a reference evaluator under seeded linearisations of its operations that respect only the declared ordering constraints and data flow (uniform / reverse / stores-first / loads-first / depth-first policies) plus targeted two-order schedules for every unordered pair of accesses that collide on the concrete state, and compared with the reference interpreter running the original instructions. Failing blocks are minimised.",
            "Trusts R1/R3 (gsim/ref/evm.py, speceval.py); states and schedules sampled (8x8 per specification quick, 32x40 thorough); no offset wrap modulo 2^256. A deterministic supplement evaluates every block of <= 3 instructions over a 19-word vocabulary (and all 4-instruction blocks over the memory vocabulary) under the same schedules.",
            TECH + ": seeded scheduler over the specification's partial order, targeted reorderings of colliding unordered accesses"),
    "C05": ("fault_enumeration", "§5 C05",
            "Single-edit semantic mutants of a block (operand swap, signed/unsigned and shift-kind substitution, constant change, dropped/duplicated/reordered store, wrong DUP/SWAP index, dropped POP) are enumerated at every applicable position and judged by the real checker; every accepted mutant is run against the reference interpreter on 48 states. Reflexivity on every base block (raw comparison must not raise). A byzantine solver peer corrupts decoded sequences in whole-pipeline runs. The forves adapter is run against a fake peer that sees only the rendered file: rendered segments must be exactly the compared sequences, peer faults must never become 'true'.",
            "Mutants capped at 14 (quick) / 40 (thorough) per base block, base blocks sampled; R1 decides distinguishability; forves binary is a fake peer. A deterministic supplement compares every block of <= 3 instructions over a 24-word vocabulary with itself and with a last-instruction substitute.",
            TECH + ": enumerated single-edit corruption of checker inputs and solver replies, fake external-checker peer"),
    "C06": ("exploration", "§5 C06",
            "The real encoder's problem text for a specification/option set is answered by several simulated solver peers (optimal, arbitrary models under random phase, reweighted and cost-maximising objectives, n-th model under blocking clauses); each reply is decoded by the repo's own model reader and validated by the symbolic stack executor R2 within the declared bounds; every emitted .smt2 is checked by an own SMT-LIB reader and by z3.",
            "Models are sampled (7 peers quick / 11 thorough per instance), not enumerated; encoder flags sampled from the 2^9 combinations; OMS is a wire-format stub.",
            TECH + ": the solver's choice of model played by seeded peers over the real encoder and model reader"),
    "C07": ("exploration", "§5 C07",
            "Weakest fit: small instances (length bound <= 6) are optimised by the real z3 peer under 3-4 encoder option sets and compared with a brute-force reference synthesiser: satisfiable whenever a witness exists, optimum cost equal to the reference minimum and equal across option sets, and soft-constraint weight minus reference cost constant over sampled models.",
            "Sampling only; no fault or schedule is involved beyond the peer and the option swarm. One recorded finding (byte sizes capped at 5 in the size objective).",
            TECH + ": optimising peer + option swarm against a brute-force reference synthesiser"),
    "C16": ("exploration", "§5 C16",
            "For each specification the history of realizing sequences observed (solver peers of several kinds, greedy, brute force for bounds <= 6), each validated by R2, is confronted with the published bounds: a witness within init_progr_len/max_sk_sz must exist (infeasibility only reported when brute force exhausts the space), no realizing sequence is shorter than min_length, original_instrs equals the reported sub-block.",
            "Infeasibility verdicts only for init_progr_len <= 6; larger instances without witness are undecided and counted. A deterministic supplement (nested rule patterns in three shapes; every block of <= 3 instructions over a 19-word vocabulary, front-end only) is judged by the brute-force search alone.",
            TECH + ": peer as witness finder / length optimiser, history of validated sequences, brute-force reference"),
}
NA = {
    "C03": "pure function of a term on 256-bit words: no schedule, clock, peer, file, crash or history between term and rewritten term (rule bait still runs through C01/C02 as a side effect)",
    "C04": "greedy_from_json is a deterministic pure function of the specification dictionary: nothing for a scheduler or fault injector to vary",
    "C15": "parse/print round trip is a pure function of a document; the property says nothing about short or failed reads",
    "C18": "formula constructors are pure; the statement asks for bounded-exhaustive enumeration, which is model checking, not simulation",
}
PENDING = ["C02", "C05", "C06", "C07", "C08", "C09", "C10", "C11", "C12", "C13", "C14", "C16", "C17"]


def main():
    import os
    checks = []
    for pid in sorted(CHECKS):
        level, ref, text, note, tech = CHECKS[pid]
        checks.append({
            "property_id": pid,
            "quick_cmd": "bin/vcheck %s --tier quick" % pid,
            "thorough_cmd": "bin/vcheck %s --tier thorough" % pid,
            "evidence_file": "evidence/%s.json" % pid,
            "replay_cmd_template": "bin/vcheck %s --replay {path}" % pid,
            "engine": "gsim",
            "level_claimed": {"category": level, "text": text, "design_ref": ref},
            "level_note": note,
            "technique": tech,
        })
    na = [{"property_id": k, "reason": v} for k, v in sorted(NA.items())]
    for p in PENDING:
        if p not in CHECKS:
            na.append({"property_id": p, "reason": "not claimed yet: check under construction (planned in DESIGN.md §5, same technique)"})
    na.sort(key=lambda x: x["property_id"])
    base = json.load(open("/root/.vp/BASELINE.json"))["cmd"]
    m = {
        "version": 1,
        "setup_cmd": "bin/setup",
        "hooks": {"guard": "GASOL_VERIF", "enable": "no source hooks: the harness rebinds module attributes (open, os, run_command, paths.*, pd, dtimer) at run time; GASOL_VERIF=1 is exported by bin/vcheck and read by nothing in /repo",
                  "baseline_off_cmd": base.replace("--junitxml=<file>", "--junitxml=/tmp/gasol_baseline_junit.xml"),
                  "source_commits": [], "add_only": True},
        "engines": [{"name": "gsim", "path": "gsim/", "serves_properties": sorted(CHECKS),
                     "kind_free_text": "own deterministic simulator: SimFS + SimClock + SimSolver (real z3 behind a seeded peer plan) + fork-per-run process model + reference models"}],
        "checks": checks,
        "not_applicable": na,
        "notes": "See DESIGN.md. Genuine defects found are fixed in /repo as 'fix:' commits and listed in known_findings.json.",
    }
    with open("MANIFEST.json", "w") as f:
        json.dump(m, f, indent=1)
    print("MANIFEST.json: %d checks, %d not_applicable" % (len(checks), len(na)))


main()
