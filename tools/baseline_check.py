#!/usr/bin/env python3
"""Compare a junit xml of the repo's test suite with the pinned stable-pass list."""
import json, sys
import xml.etree.ElementTree as ET
base = json.load(open("/root/.vp/BASELINE.json"))
root = ET.parse(sys.argv[1]).getroot()
passed = set()
for tc in root.iter("testcase"):
    if not any(ch.tag in ("failure", "error", "skipped") for ch in tc):
        passed.add("%s::%s" % (tc.get("classname"), tc.get("name")))
missing = [t for t in base["stable_pass"] if t not in passed]
print("stable_pass: %d, passing now: %d, missing: %s" % (len(base["stable_pass"]), len(base["stable_pass"]) - len(missing), missing))
sys.exit(1 if missing else 0)
