"""Self-tests of the simulator itself (not of any property).

selftest-determinism : the same (seed, task) gives the same result digest in-process and in a forked
                       child, on 1 and on 16 workers, in either submission order, and in interpreters
                       started with different PYTHONHASHSEED values.
selftest-mutants     : a scratch copy of /repo under /dev/shm receives one small defect per claimed
                       property; the corresponding quick check, pointed at the copy with GASOL_REPO,
                       must exit 1.  The copy is removed afterwards.
"""
import importlib
import json
import os
import shutil
import subprocess
import sys
import tempfile

from gsim.core import procs
from gsim.core.prng import digest

VERIF = os.path.dirname(os.path.dirname(os.path.abspath(__file__)))
DET_CHECKS = ["c01", "c02", "c05", "c08", "c09", "c14", "c17"]


def _strip(r):
    """What must be reproducible about a task result."""
    return {k: r.get(k) for k in ("evals", "keys", "probes", "faults", "inconclusive", "harness")} | {
        "sim_s": round(r.get("sim_s", 0.0), 6),
        "violations": [(v["class"], v["detail"][:200]) for v in r.get("violations", [])]}


def _run_tasks(packed):
    name, specs = packed
    mod = importlib.import_module("gsim.checks." + name)
    return [digest(_strip(mod.task(s))) for s in specs]


def _digests(workers, n, fork, reverse=False):
    os.environ["GSIM_FORK"] = "1" if fork else "0"
    pool = procs.Pool(workers)
    try:
        jobs = []
        for name in DET_CHECKS:
            mod = importlib.import_module("gsim.checks." + name)
            specs = mod.plan("quick", 1, 0)[:n]
            for s in specs:
                jobs.append((name, [s]))
        order = list(range(len(jobs)))
        if reverse:
            order.reverse()
        res = pool.map_plain(_run_tasks, [jobs[i] for i in order])
        out = [None] * len(jobs)
        for i, r in zip(order, res):
            out[i] = r[0] if isinstance(r, list) else "harness-error"
        return out
    finally:
        pool.close()
        os.environ["GSIM_FORK"] = "0"


def determinism(tier):
    n = 6 if tier == "quick" else 24
    if os.environ.get("GSIM_SELFTEST_CHILD"):
        print(json.dumps(_digests(8, n, False)))
        return 0
    a = _digests(1, n, False)
    b = _digests(16, n, False, reverse=True)
    c = _digests(4, n, True)
    ok = True
    for name, x in (("16 workers reversed", b), ("forked children", c)):
        diff = [i for i in range(len(a)) if a[i] != x[i]]
        print("in-process/1 worker vs %s: %d of %d task digests differ" % (name, len(diff), len(a)))
        ok = ok and not diff
    for hs in ("3", "77"):
        env = dict(os.environ, PYTHONHASHSEED=hs, GSIM_SELFTEST_CHILD="1", PYTHONPATH=VERIF)
        p = subprocess.run([sys.executable, "-W", "ignore", "-m", "gsim.main", "selftest-determinism", "--tier", tier],
                           stdout=subprocess.PIPE, stderr=subprocess.DEVNULL, env=env, cwd=VERIF)
        try:
            d = json.loads(p.stdout.decode().strip().splitlines()[-1])
        except (ValueError, IndexError):
            print("PYTHONHASHSEED=%s: child produced no digests" % hs)
            ok = False
            continue
        diff = [i for i in range(len(a)) if a[i] != d[i]]
        print("PYTHONHASHSEED=0 vs %s (fresh interpreter): %d of %d task digests differ" % (hs, len(diff), len(a)))
        ok = ok and not diff
    print("selftest-determinism: %s" % ("ok" if ok else "FAILED"))
    return 0 if ok else 2


# one small defect per claimed property: (check id, file, old text, new text[, text appended to the file])
MUTANTS = [
    ("C01", "sfs_generator/gasol_optimization.py", 'rule = f"{opcode}(X,1)"\n            return inp_vars[0]', 'rule = f"{opcode}(X,1)"\n            return inp_vars[1]'),
    ("C02", "sfs_generator/gasol_optimization.py", "dep = abs(var1_int - var2_int) < 32", "dep = var1_int == var2_int"),
    ("C05", "verification/sfs_verify.py", 'return False, "PUSH values are different"', 'return True, ""'),
    ("C06", "smt_encoding/instructions/instruction_bounds_with_dependencies.py",
     "return self._first_position_not_instr_by_theta_value.get(theta_value, self._b0) - 1 + self._initial_idx",
     "return self._first_position_not_instr_by_theta_value.get(theta_value, self._b0) + self._initial_idx"),
    ("C07", "smt_encoding/complete_encoding/synthesis_full_encoding.py", "weight_dict = {instruction.theta_value: instruction.gas_cost",
     "weight_dict = {instruction.theta_value: min(instruction.gas_cost, 3)"),
    ("C08", "gasol_asm.py", "    if saved_criterion > 0:\n        return True\n    elif saved_criterion == 0:",
     "    if saved_criterion >= 0:\n        return True\n    elif saved_criterion == 0:"),
    ("C09", "sfs_generator/asm_json.py", 'final_asm = {"version": self.version}', 'final_asm = {"version": self.version.split("+")[0]}'),
    ("C10", "gasol_asm.py", "    try:\n        return _compare_asm_block_asm_format(old_block, new_block, params)\n    except Exception as e:",
     "    try:\n        return _compare_asm_block_asm_format(old_block, new_block, params)\n    except ZeroDivisionError as e:"),
    ("C11", "gasol_asm.py", "chosen_ids = greedy_ids if chosen_tag in ('greedy', 'greedy_no_model') else optimized_ids",
     "chosen_ids = optimized_ids"),
    # the per-block reset becomes a module-level initialisation (the list survives from block to block)
    ("C12", "sfs_generator/gasol_optimization.py", "    global already_considered\n    already_considered = []\n",
     "    global already_considered\n", "\nalready_considered = []\n"),
    ("C13", "sfs_generator/gasol_optimization.py", "u_dict_sort = sorted(u_dict.keys())", "u_dict_sort = list(set(u_dict.keys()))"),
    ("C14", "solution_generation/optimize_from_sub_blocks.py", "            if previously_optimized:\n                optimized_instructions.append(previous_instructions[instr_idx-1])",
     "            if previously_optimized and sub_block_idx > 1:\n                optimized_instructions.append(previous_instructions[instr_idx-1])"),
    ("C16", "sfs_generator/gasol_optimization.py", 'json_dict["init_progr_len"] = min(max_instr_size, max_instr_size-discount_op+len(not_used))',
     'json_dict["init_progr_len"] = min(max_instr_size, max_instr_size-discount_op+len(not_used))-1'),
    ("C17", "sfs_generator/asm_bytecode.py", 'return constants.push0_enabled and disasm == "PUSH" and value == "0"',
     'return disasm == "PUSH" and value == "0"'),
]


def mutants(tier):
    repo = os.environ.get("GASOL_REPO", "/repo")
    base = tempfile.mkdtemp(prefix="gsim-mut-", dir="/dev/shm" if os.path.isdir("/dev/shm") else None)
    results = []
    try:
        for cid, rel, old, new, *append in MUTANTS:
            dst = os.path.join(base, cid)
            shutil.copytree(repo, dst, ignore=shutil.ignore_patterns(".git", "__pycache__", "examples/solidity"), symlinks=True)
            p = os.path.join(dst, rel)
            text = open(p).read()
            if text.count(old) != 1:
                results.append((cid, "mutation site not found (%d matches)" % text.count(old)))
                shutil.rmtree(dst, ignore_errors=True)
                continue
            open(p, "w").write(text.replace(old, new) + "".join(append))
            env = dict(os.environ, GASOL_REPO=dst, PYTHONPATH=VERIF, GSIM_EVIDENCE_DIR=os.path.join(base, "evidence"))
            r = subprocess.run([os.path.join(VERIF, "bin", "vcheck"), cid, "--tier", "quick"], stdout=subprocess.PIPE,
                               stderr=subprocess.STDOUT, env=env, cwd=VERIF)
            out = r.stdout.decode()
            caught = r.returncode == 1 and "VIOLATION property=%s" % cid in out
            first = next((l for l in out.splitlines() if l.strip().startswith("class=")), "")
            results.append((cid, "caught: " + first.strip()[:160] if caught else "MISSED (exit %d)" % r.returncode))
            print("%s %s" % results[-1])
            sys.stdout.flush()
            shutil.rmtree(dst, ignore_errors=True)
    finally:
        shutil.rmtree(base, ignore_errors=True)
    missed = [r for r in results if not r[1].startswith("caught")]
    print("selftest-mutants: %d of %d built-in defects caught" % (len(results) - len(missed), len(results)))
    return 0 if not missed else 2


def run(what, tier):
    if what == "selftest-determinism":
        return determinism(tier)
    if what == "selftest-mutants":
        return mutants(tier)
    print("unknown selftest " + what)
    return 3
