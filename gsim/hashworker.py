"""Worker interpreter for C13: started with its own PYTHONHASHSEED, runs a batch of ops (each in a
forked child of this pristine interpreter) and prints one JSON line of artefact digests per op."""
import csv
import hashlib
import io
import json
import re
import sys


def artefacts(op, res):
    out = {}
    name = op.get("env", {}).get("tmp_name", "t")
    for p, data in sorted(res["files"].items()):
        if p.startswith("/sim/in/"):
            continue
        q = p.replace("gasol_" + name, "gasol_X")
        if p.endswith(".csv"):
            rows = list(csv.reader(io.StringIO(data.decode())))
            if rows:
                keep = [i for i, h in enumerate(rows[0]) if "time" not in h]
                rows = [[r[i] for i in keep if i < len(r)] for r in rows]
            data = json.dumps(rows).encode()
        out[q] = hashlib.sha256(data).hexdigest()[:20]
    out["#stdout-totals"] = hashlib.sha256("\n".join(
        l for l in res["stdout"].split("\n") if l.startswith("Estimated") or "number of instructions" in l).encode()).hexdigest()[:20]
    out["#exc"] = res["exc"]["type"] if res["exc"] else None
    return out


def improved(res):
    """Did the run optimise anything (printed totals differ)?"""
    import re
    t = {}
    for k, rx in (("g0", r"Estimated initial gas: (-?\d+)"), ("g1", r"Estimated gas optimized: (-?\d+)"),
                  ("n0", r"Initial number of instructions: (-?\d+)"), ("n1", r"Final number of instructions: (-?\d+)")):
        m = re.search(rx, res["stdout"])
        t[k] = m.group(1) if m else None
    return t["g0"] != t["g1"] or t["n0"] != t["n1"]


def main():
    from gsim.core import seams, procs, pipe
    seams.load_repo()
    procs.snapshot_repo()
    ops = json.load(sys.stdin)
    for op in ops:
        st, res = procs.run_sut(pipe.run_op, op, **pipe.child_limits(op))
        if st != "ok":
            print(json.dumps({"status": st}))
        else:
            print(json.dumps({"status": "ok", "art": artefacts(op, res), "sim_s": res["sim_time"], "improved": improved(res)}))
        sys.stdout.flush()


if __name__ == "__main__":
    main()
