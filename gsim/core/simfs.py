"""SimFS -- the in-memory file system, clock and event log the system under test sees.

Only paths under /sim/ are simulated; anything else (imports, /dev/null) passes through to the
real file system.  Every crossing is an event with a global sequence number; faults and the crash
point are *placed* on event numbers by the run's plan, never drawn at run time.
"""
import errno
import io
import os as _os
import posixpath

SIM_ROOT = "/sim/"
CWD = "/sim/cwd"
ERRNOS = {"EIO": errno.EIO, "ENOSPC": errno.ENOSPC, "EACCES": errno.EACCES, "ENOENT": errno.ENOENT}


class Crash(BaseException):
    """Raised only in 'exception' crash mode (unit tests of the harness); real runs use crash_hook."""


class SimClock:
    def __init__(self, seed=0, rate=1.0):
        self.now = 1000.0
        self.seed = seed
        self.rate = rate
        self.n = 0

    def tick(self, base=1e-5):
        self.n += 1
        x = (self.n * 0x9E3779B97F4A7C15 + self.seed) & 0xFFFFFFFF
        self.now += base * self.rate * (1 + (x % 7))

    def advance(self, seconds):
        self.now += seconds

    def timer(self):
        self.tick()
        return self.now


class SimFS:
    def __init__(self, clock=None):
        self.files = {}            # path -> bytes (content visible to readers)
        self.dirs = {"/sim", CWD, "/sim/in", "/sim/tmp"}
        self.events = []           # (seq, kind, key, outcome)
        self.seq = 0
        self.clock = clock or SimClock()
        self.faults = {}           # seq -> (errno name, kinds or None)
        self.fault_on = []         # [(kind, path substring, nth, errno name)] resolved at run time, deterministic
        self.fired = []            # faults that actually fired: (seq, kind, key, errno name)
        self.crash_at = None
        self.crash_hook = None     # callable(simfs) that never returns
        self.open_files = []       # SimWriteFile objects not yet closed
        self.closed_unsynced = []  # paths written and closed (never synced: the SUT never syncs)
        self.match_counts = {}
        self.fdn = 10 ** 6

    # ---- paths -------------------------------------------------------------------------
    @staticmethod
    def resolve(path):
        p = _os.fspath(path) if not isinstance(path, str) else path
        if not p.startswith("/"):
            p = CWD + "/" + p
        return posixpath.normpath(p)

    @staticmethod
    def is_sim(p):
        return p == "/sim" or p.startswith(SIM_ROOT)

    # ---- events ------------------------------------------------------------------------
    def event(self, kind, key, log=True):
        """Count one crossing; fire the placed fault / crash if this is its number."""
        self.seq += 1
        seq = self.seq
        self.clock.tick()
        if self.crash_at is not None and seq >= self.crash_at:
            if log:
                self.events.append((seq, kind, key, "CRASH"))
            self.crash_at = None
            if self.crash_hook is not None:
                self.crash_hook(self, kind, key)
            raise Crash()
        f = self.faults.get(seq)
        if f is not None and (f[1] is None or kind in f[1]):
            self.fired.append((seq, kind, key, f[0]))
            if log:
                self.events.append((seq, kind, key, f[0]))
            raise OSError(ERRNOS[f[0]], "simulated " + f[0], key)
        for i, (fk, sub, nth, en) in enumerate(self.fault_on):
            if fk == kind and sub in key:
                c = self.match_counts.get(i, 0) + 1
                self.match_counts[i] = c
                if c == nth or nth == 0:        # nth == 0: persistent fault, fires on every match
                    self.fired.append((seq, kind, key, en))
                    if log:
                        self.events.append((seq, kind, key, en))
                    raise OSError(ERRNOS[en], "simulated " + en, key)
        if log:
            self.events.append((seq, kind, key, "ok"))
        return seq

    # ---- file API ----------------------------------------------------------------------
    def open(self, path, mode="r", *args, **kwargs):
        p = self.resolve(path)
        if not self.is_sim(p):
            return io.open(path, mode, *args, **kwargs)
        if "b" in mode:
            raise ValueError("binary mode not used by the SUT")
        if "r" in mode and "+" not in mode:
            self.event("open_r", p)
            if p not in self.files:
                raise FileNotFoundError(errno.ENOENT, "No such file or directory", p)
            return SimReadFile(self, p, self.files[p].decode())
        if "w" in mode or "a" in mode:
            self.event("open_w", p)
            parent = posixpath.dirname(p)
            if parent not in self.dirs:
                raise FileNotFoundError(errno.ENOENT, "No such file or directory", p)
            init = self.files.get(p, b"").decode() if "a" in mode else ""
            self.files[p] = init.encode()
            f = SimWriteFile(self, p, init)
            self.open_files.append(f)
            return f
        raise ValueError("mode %r not supported" % mode)

    def write_whole(self, path, text, kind="to_csv"):
        p = self.resolve(path)
        if not self.is_sim(p):
            with io.open(path, "w") as f:
                f.write(text)
            return
        f = self.open(p, "w")
        f.write(text)
        f.close()

    def listdir(self, path):
        p = self.resolve(path)
        if not self.is_sim(p):
            return _os.listdir(path)
        self.event("listdir", p)
        if p not in self.dirs:
            raise FileNotFoundError(errno.ENOENT, "No such file or directory", p)
        pre = p.rstrip("/") + "/"
        names = set()
        for q in list(self.files) + list(self.dirs):
            if q.startswith(pre):
                names.add(q[len(pre):].split("/")[0])
        names.discard("")
        return sorted(names)

    def mkdir(self, path, parents=False, exist_ok=False):
        p = self.resolve(path)
        if not self.is_sim(p):
            if parents:
                return _os.makedirs(path, exist_ok=exist_ok)
            return _os.mkdir(path)
        self.event("mkdir", p)
        if p in self.dirs:
            if exist_ok:
                return
            raise FileExistsError(errno.EEXIST, "File exists", p)
        parent = posixpath.dirname(p)
        if parent not in self.dirs:
            if not parents:
                raise FileNotFoundError(errno.ENOENT, "No such file or directory", p)
            self.mkdir(parent, parents=True, exist_ok=True)
        self.dirs.add(p)

    def remove(self, path):
        p = self.resolve(path)
        if not self.is_sim(p):
            return _os.remove(path)
        self.event("remove", p)
        if p not in self.files:
            raise FileNotFoundError(errno.ENOENT, "No such file or directory", p)
        del self.files[p]

    def rmtree(self, path, ignore_errors=False, **kw):
        p = self.resolve(path)
        if not self.is_sim(p):
            raise RuntimeError("refusing rmtree outside the simulated tree: %s" % p)
        try:
            self.event("rmtree", p)
        except OSError:
            if ignore_errors:
                return
            raise
        pre = p.rstrip("/") + "/"
        for q in [q for q in self.files if q.startswith(pre)]:
            del self.files[q]
        for q in [q for q in self.dirs if q == p or q.startswith(pre)]:
            self.dirs.discard(q)

    def exists(self, path):
        p = self.resolve(path)
        if not self.is_sim(p):
            return _os.path.exists(path)
        self.event("exists", p)
        return p in self.files or p in self.dirs

    def mkstemp(self):
        self.fdn += 1
        p = "/sim/tmp/tmp%06d" % (self.fdn - 10 ** 6)
        self.event("mkstemp", p)
        self.files[p] = b""
        return self.fdn, p

    def close_fd(self, fd):
        if isinstance(fd, int) and fd >= 10 ** 6:
            self.event("close_fd", str(fd))
            return
        return _os.close(fd)

    # ---- durable images ----------------------------------------------------------------
    def image_kill(self, rng):
        """What survives a process kill: closed files whole; for files still open, the part of the
        user-space buffer that had been flushed (a multiple of 8 KiB, or for variety any prefix)."""
        img = dict(self.files)
        for f in self.open_files:
            data = f.getvalue().encode()
            if rng.random() < 0.5:
                cut = (len(data) // 8192) * 8192
            else:
                cut = rng.randrange(len(data) + 1)
            img[f.path] = data[:cut]
        return img, set(self.dirs)

    def image_powerloss(self, rng):
        """Additionally: nothing was ever synced, so any file written by this process may be empty
        or truncated at a block boundary."""
        img, dirs = self.image_kill(rng)
        for p in self.closed_unsynced:
            if p in img:
                r = rng.random()
                if r < 0.35:
                    img[p] = b""
                elif r < 0.7:
                    img[p] = img[p][:(rng.randrange(len(img[p]) + 1) // 4096) * 4096]
        return img, dirs


class SimReadFile(io.StringIO):
    def __init__(self, fs, path, text):
        super().__init__(text)
        self.fs = fs
        self.path = path

    def close(self):
        if not self.closed:
            self.fs.event("close_r", self.path)
        super().close()


class SimWriteFile(io.StringIO):
    def __init__(self, fs, path, init=""):
        super().__init__()
        self.fs = fs
        self.path = path
        self.nwrites = 0
        if init:
            super().write(init)

    def write(self, s):
        self.nwrites += 1
        fs = self.fs
        # a write is an un-logged event (thousands per file); faults/crash can still land on it
        try:
            fs.event("write", self.path, log=False)
        except OSError as e:
            if e.errno == errno.ENOSPC:
                super().write(s[:len(s) // 2])       # short write, then the error
            raise
        return super().write(s)

    def close(self):
        if self.closed:
            return
        fs = self.fs
        data = self.getvalue()
        try:
            fs.event("close_w", self.path)
        finally:
            # content becomes visible whether or not the close reported an error
            fs.files[self.path] = data.encode()
            if self in fs.open_files:
                fs.open_files.remove(self)
            fs.closed_unsynced.append(self.path)
            fs.events.append((fs.seq, "written", self.path, "%d bytes/%d writes" % (len(data), self.nwrites)))
            super().close()

    def __exit__(self, *a):
        self.close()
        return False
