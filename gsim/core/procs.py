"""Process model: a pristine worker forks one child per run; the SUT only ever executes in a child.

run_in_child() bounds the child with RLIMIT_CPU / RLIMIT_AS (CPU time, not wall time, so machine
load cannot turn into a verdict) and a generous wall-clock safety net that is reported as a
*harness* problem, never as a property violation.
"""
import concurrent.futures as cf
import faulthandler
import multiprocessing as mp
import os
import pickle
import resource
import select
import signal
import struct
import sys
import time
import traceback

_child_pipe = None


def ship(result):
    """Send the result to the parent and terminate the child immediately (also used by crash hooks)."""
    data = pickle.dumps(result, protocol=4)
    fd = _child_pipe
    os.write(fd, struct.pack("<Q", len(data)))
    off = 0
    while off < len(data):
        off += os.write(fd, data[off:off + (1 << 20)])
    os.close(fd)
    os._exit(0)


def run_in_child(fn, arg, cpu_s=60, as_bytes=4 << 30, wall_s=600):
    """Run fn(arg) in a forked child.  Returns (status, result):
    status in 'ok' | 'cpu' | 'mem' | 'signal:<n>' | 'exit:<n>' | 'wall' | 'noreply'."""
    global _child_pipe
    r, w = os.pipe()
    sys.stdout.flush()
    sys.stderr.flush()
    pid = os.fork()
    if pid == 0:
        try:
            os.close(r)
            _child_pipe = w
            resource.setrlimit(resource.RLIMIT_CPU, (cpu_s, cpu_s + 2))
            if as_bytes:
                resource.setrlimit(resource.RLIMIT_AS, (as_bytes, as_bytes))
            resource.setrlimit(resource.RLIMIT_CORE, (0, 0))
            try:
                res = fn(arg)
            except MemoryError:
                os._exit(97)
            ship(res)
        except SystemExit as e:
            os._exit(e.code if isinstance(e.code, int) else 98)
        except BaseException:
            try:
                traceback.print_exc()
            finally:
                os._exit(99)
    os.close(w)
    deadline = time.time() + wall_s
    buf = bytearray()
    status = None
    while True:
        left = deadline - time.time()
        if left <= 0:
            try:
                os.kill(pid, signal.SIGKILL)
            except ProcessLookupError:
                pass
            status = "wall"
            break
        rl, _, _ = select.select([r], [], [], min(left, 5.0))
        if rl:
            chunk = os.read(r, 1 << 20)
            if not chunk:
                break
            buf += chunk
    os.close(r)
    _, st = os.waitpid(pid, 0)
    if status == "wall":
        return "wall", None
    if os.WIFSIGNALED(st):
        sig = os.WTERMSIG(st)
        if sig in (signal.SIGXCPU, signal.SIGKILL) and len(buf) < 8:
            return "cpu", None
        return "signal:%d" % sig, None
    code = os.WEXITSTATUS(st)
    if code == 97:
        return "mem", None
    if code != 0:
        return "exit:%d" % code, None
    if len(buf) < 8:
        return "noreply", None
    n = struct.unpack("<Q", bytes(buf[:8]))[0]
    if len(buf) - 8 != n:
        return "noreply", None
    return "ok", pickle.loads(bytes(buf[8:]))


def _pool_task(packed):
    fn, arg, kw = packed
    return run_in_child(fn, arg, **kw)


def _pool_plain(packed):
    fn, arg = packed
    return fn(arg)


class Pool:
    """Workers are forks of the (pristine) driver; each task forks again for the SUT."""

    def __init__(self, workers=None):
        self.workers = workers or int(os.environ.get("VERIF_WORKERS", "0")) or min(16, os.cpu_count() or 4)
        self.ex = cf.ProcessPoolExecutor(max_workers=self.workers, mp_context=mp.get_context("fork"))

    def map_children(self, fn, args, chunk=1, **kw):
        """Ordered results of run_in_child(fn, a) for a in args."""
        return list(self.ex.map(_pool_task, [(fn, a, kw) for a in args], chunksize=chunk))

    def imap_children(self, fn, args, **kw):
        futs = [self.ex.submit(_pool_task, (fn, a, kw)) for a in args]
        for f in futs:
            yield f.result()

    def map_plain(self, fn, args, chunk=1):
        return list(self.ex.map(_pool_plain, [(fn, a) for a in args], chunksize=chunk))

    def close(self):
        self.ex.shutdown(wait=True, cancel_futures=True)


def arm_watchdog(seconds):
    """Dump all stacks and die if the harness itself hangs (exit status is never 0)."""
    faulthandler.dump_traceback_later(seconds, exit=True)
