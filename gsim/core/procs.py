"""Process model: a pristine worker forks one child per run; the SUT only ever executes in a child.

run_in_child() bounds the child with RLIMIT_CPU / RLIMIT_AS (CPU time, not wall time, so machine
load cannot turn into a verdict) and a generous wall-clock safety net that is reported as a
*harness* problem, never as a property violation.
"""
import concurrent.futures as cf
import faulthandler
import multiprocessing as mp
import os
import pickle
import resource
import select
import signal
import struct
import sys
import time
import traceback

_child_pipe = None


def ship(result):
    """Send the result to the parent and terminate the child immediately (also used by crash hooks)."""
    data = pickle.dumps(result, protocol=4)
    fd = _child_pipe
    os.write(fd, struct.pack("<Q", len(data)))
    off = 0
    while off < len(data):
        off += os.write(fd, data[off:off + (1 << 20)])
    os.close(fd)
    os._exit(0)


def run_in_child(fn, arg, cpu_s=60, as_bytes=4 << 30, wall_s=600, as_extra=None):
    """Run fn(arg) in a forked child.  Returns (status, result):
    status in 'ok' | 'cpu' | 'mem' | 'signal:<n>' | 'exit:<n>' | 'wall' | 'noreply'.
    as_extra: address-space budget relative to what the worker maps at the fork (bytes on top of it)."""
    global _child_pipe
    if as_extra is not None:
        with open("/proc/self/statm") as f:
            as_bytes = int(f.read().split()[0]) * os.sysconf("SC_PAGE_SIZE") + as_extra
    r, w = os.pipe()
    sys.stdout.flush()
    sys.stderr.flush()
    pid = os.fork()
    if pid == 0:
        try:
            os.close(r)
            _child_pipe = w
            resource.setrlimit(resource.RLIMIT_CPU, (cpu_s, cpu_s + 2))
            if as_bytes:
                resource.setrlimit(resource.RLIMIT_AS, (as_bytes, as_bytes))
            resource.setrlimit(resource.RLIMIT_CORE, (0, 0))
            try:
                res = fn(arg)
            except MemoryError:
                os._exit(97)
            ship(res)
        except SystemExit as e:
            os._exit(e.code if isinstance(e.code, int) else 98)
        except BaseException:
            try:
                traceback.print_exc()
            finally:
                os._exit(99)
    os.close(w)
    deadline = time.time() + wall_s
    buf = bytearray()
    status = None
    while True:
        left = deadline - time.time()
        if left <= 0:
            try:
                os.kill(pid, signal.SIGKILL)
            except ProcessLookupError:
                pass
            status = "wall"
            break
        rl, _, _ = select.select([r], [], [], min(left, 5.0))
        if rl:
            chunk = os.read(r, 1 << 20)
            if not chunk:
                break
            buf += chunk
    os.close(r)
    _, st = os.waitpid(pid, 0)
    if status == "wall":
        return "wall", None
    if os.WIFSIGNALED(st):
        sig = os.WTERMSIG(st)
        if sig in (signal.SIGXCPU, signal.SIGKILL) and len(buf) < 8:
            return "cpu", None
        return "signal:%d" % sig, None
    code = os.WEXITSTATUS(st)
    if code == 97:
        return "mem", None
    if code != 0:
        return "exit:%d" % code, None
    if len(buf) < 8:
        return "noreply", None
    n = struct.unpack("<Q", bytes(buf[:8]))[0]
    if len(buf) - 8 != n:
        return "noreply", None
    return "ok", pickle.loads(bytes(buf[8:]))


def _pool_task(packed):
    fn, arg, kw = packed
    return run_in_child(fn, arg, **kw)


def _pool_plain(packed):
    fn, arg = packed
    try:
        return fn(arg)
    except Exception:
        # a bug in the harness (or an output shape it did not expect) is reported as such, never as a verdict
        return {"harness": 1, "harness_trace": traceback.format_exc()[-1500:]}


class Pool:
    """Workers are forks of the (pristine) driver; each task forks again for the SUT."""

    def __init__(self, workers=None):
        self.workers = workers or int(os.environ.get("VERIF_WORKERS", "0")) or min(16, os.cpu_count() or 4)
        self.ex = cf.ProcessPoolExecutor(max_workers=self.workers, mp_context=mp.get_context("fork"))

    def map_children(self, fn, args, chunk=1, **kw):
        """Ordered results of run_in_child(fn, a) for a in args."""
        return list(self.ex.map(_pool_task, [(fn, a, kw) for a in args], chunksize=chunk))

    def imap_children(self, fn, args, **kw):
        futs = [self.ex.submit(_pool_task, (fn, a, kw)) for a in args]
        for f in futs:
            yield f.result()

    def map_plain(self, fn, args, chunk=1):
        return list(self.ex.map(_pool_plain, [(fn, a) for a in args], chunksize=chunk))

    def close(self):
        self.ex.shutdown(wait=True, cancel_futures=True)


def arm_watchdog(seconds):
    """Dump all stacks and die if the harness itself hangs (exit status is never 0)."""
    faulthandler.dump_traceback_later(seconds, exit=True)


# ------------------------------------------------------------------------------------------------
# In-process execution with state restore.
#
# In this sandbox process creation and page faults are serialised system-wide (measured: the same
# 18 runs take 2.2 s on 1 worker and 45 s on 16 workers, i.e. ~8 forked runs/s in total however many
# workers are used).  So the default way to run the SUT is *inside* the pool worker, with every
# module-level variable of every repo module restored to its import-time value before and after the
# run -- which is exactly the state a fork of the pristine worker would have had.  Forks are still
# used where a process boundary is the point: crash points (C11), address-space budgets (C10),
# history-vs-fresh comparisons (C12) and other PYTHONHASHSEEDs (C13).  selftest-determinism checks
# that in-process and forked execution give identical digests.

import copy as _copy
import types as _types

_PLAIN = (int, float, str, bytes, bool, type(None))
_snapshot = None


class Budget(BaseException):
    pass


def _is_plain(v, depth=0):
    if isinstance(v, _PLAIN):
        return True
    if depth > 6:
        return False
    if isinstance(v, (list, tuple, set, frozenset)):
        return all(_is_plain(x, depth + 1) for x in v)
    if isinstance(v, dict):
        return all(_is_plain(k, depth + 1) and _is_plain(x, depth + 1) for k, x in v.items())
    return False


def _repo_modules():
    repo = os.environ.get("GASOL_REPO", "/repo")
    out = []
    for name, m in list(sys.modules.items()):
        f = getattr(m, "__file__", None)
        if f and f.startswith(repo + "/"):
            out.append(m)
    return out


def snapshot_repo():
    """Record the import-time value of every module-level name of every repo module."""
    global _snapshot
    snap = {}
    for m in _repo_modules():
        shallow = dict(m.__dict__)
        deep = {k: _copy.deepcopy(v) for k, v in shallow.items()
                if not k.startswith("__") and not isinstance(v, _PLAIN) and _is_plain(v)}
        snap[m] = (shallow, deep)
    _snapshot = snap


def restore_repo():
    if _snapshot is None:
        snapshot_repo()
    for m, (shallow, deep) in _snapshot.items():
        d = m.__dict__
        for k in [k for k in d if k not in shallow]:
            del d[k]
        for k, v in shallow.items():
            if k in deep:
                cur = d.get(k, None)
                # unchanged containers (the big constant tables) are left alone; anything rebound or
                # mutated in place gets a fresh copy of the import-time value
                if cur is not v or cur != deep[k]:
                    fresh = _copy.deepcopy(deep[k])
                    d[k] = fresh
                    shallow[k] = fresh
            elif d.get(k, None) is not v:
                d[k] = v


def _on_budget(signum, frame):
    raise Budget()


def run_inproc(fn, arg, cpu_s=60, **_ignored):
    """Run fn(arg) in this process between two state restores.  Same return convention as
    run_in_child.  The CPU budget is enforced with ITIMER_VIRTUAL (process CPU time, so machine load
    cannot cause a verdict); the timer repeats, so a bare `except:` in the SUT cannot swallow it."""
    restore_repo()
    old = signal.signal(signal.SIGVTALRM, _on_budget)
    signal.setitimer(signal.ITIMER_VIRTUAL, cpu_s, 0.5)
    rl = sys.getrecursionlimit()
    try:
        try:
            res = fn(arg)
            status = "ok"
        except Budget:
            res, status = None, "cpu"
        except MemoryError:
            res, status = None, "mem"
    finally:
        signal.setitimer(signal.ITIMER_VIRTUAL, 0, 0)
        signal.signal(signal.SIGVTALRM, old)
        sys.setrecursionlimit(rl)
        sys.stdout, sys.stderr = sys.__stdout__, sys.__stderr__
        restore_repo()
    return status, res


def run_sut(fn, arg, fork=None, **kw):
    """Default executor for SUT runs."""
    if fork is None:
        fork = os.environ.get("GSIM_FORK") == "1"
    if fork:
        return run_in_child(fn, arg, **kw)
    return run_inproc(fn, arg, **kw)
