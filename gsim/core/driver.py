"""Generic check driver: seeded task plan -> pool -> merge -> known-finding triage -> evidence/exit code.

A check module provides:
  ID, LEVEL, RULE (text), COMPONENTS (dict real/stub), ASSUMPTIONS (list)
  plan(tier, seed, batch) -> list of task specs (plain data); batch = 0, 1, 2 ... (thorough keeps asking)
  task(spec) -> dict(evals=int, keys=[str], violations=[...], probes={}, faults={}, sim_s=float,
                     samples=[...], inconclusive=int)
  replay(obj) -> violation dict or None      (obj = the "replay" field of a violation)
A violation is {"class": [str,...], "detail": str, "replay": {...plain data...}}.
"""
import json
import os
import sys
import time

from gsim.core import procs
from gsim.core.prng import digest, verif_seed

VERIF = os.path.dirname(os.path.dirname(os.path.dirname(os.path.abspath(__file__))))
OUT = os.environ.get("GSIM_OUT") or os.path.join(VERIF, "out")
EVIDENCE_DIR = os.environ.get("GSIM_EVIDENCE_DIR") or os.path.join(VERIF, "evidence")
KNOWN_FILE = os.path.join(VERIF, "known_findings.json")


def load_known(pid):
    try:
        with open(KNOWN_FILE) as f:
            k = json.load(f)
    except FileNotFoundError:
        return []
    return [x for x in k.get("findings", []) if x["property"] == pid and x.get("status") == "open"]


def match_known(v, known):
    for k in known:
        kc = k["class"]
        if v["class"][:len(kc)] == kc:
            return k
    return None


def write_replay(pid, seed, idx, v):
    d = os.path.join(OUT, "replays", pid)
    os.makedirs(d, exist_ok=True)
    path = os.path.join(d, "%d-%s.json" % (seed, idx))
    with open(path, "w") as f:
        json.dump({"property": pid, "seed": seed, "class": v["class"], "detail": v["detail"],
                   "pythonhashseed": os.environ.get("PYTHONHASHSEED"), "replay": v["replay"]}, f, indent=1, default=str)
    return path


def write_evidence(mod, tier, seed, agg, wall, violations_n, known_met):
    keys = agg["keys"]
    cov = {
        "evaluations": max(agg["evals"], 0),
        "distinct_nontrivial": len(keys),
        "rule": mod.RULE,
        "samples": agg["samples"][:6] or ["(no sample)"],
        "runs_per_hour": int(agg["evals"] / wall * 3600) if wall > 0 else 0,
        "seeds": [seed],
        "simulated_seconds": round(agg["sim_s"], 3),
        "faults_fired": dict(sorted(agg["faults"].items())),
        "probes": dict(sorted(agg["probes"].items())),
        "components": mod.COMPONENTS,
        "inconclusive": agg["inconclusive"],
        "known_findings_met": known_met,
        "harness_errors": agg["harness"],
        "tasks": agg["tasks"],
        "workers": agg["workers"],
    }
    if getattr(mod, "EXTRA_COVERAGE", None):
        cov.update(mod.EXTRA_COVERAGE(agg))
    ev = {"property_id": mod.ID, "tier": tier, "seed": seed, "level": mod.LEVEL, "coverage": cov,
          "assumptions": mod.ASSUMPTIONS, "wall_s": round(wall, 2), "violations": violations_n}
    os.makedirs(EVIDENCE_DIR, exist_ok=True)
    path = os.path.join(EVIDENCE_DIR, mod.ID + ".json")
    tmp = path + ".tmp"
    with open(tmp, "w") as f:
        json.dump(ev, f, indent=1, default=str)
    os.replace(tmp, path)


def _run_chunked(pool, mod, specs, t0, budget):
    """Submit the batch in slices so that a thorough run honours its time budget inside a batch too."""
    # with a time budget (thorough tier) the slices are one task per worker, so that the budget is checked often enough
    step = max(16, 4 * pool.workers) if budget is None else max(1, pool.workers)
    for i in range(0, len(specs), step):
        part = specs[i:i + step]
        for spec, r in zip(part, pool.map_plain(mod.task, part)):
            yield spec, r
        if budget is not None and time.time() - t0 > budget:
            return


def run_check(mod, tier, replay_path=None):
    seed = verif_seed()
    t0 = time.time()
    if replay_path:
        with open(replay_path) as f:
            obj = json.load(f)
        v = mod.replay(obj["replay"])
        if v is None:
            print("replay: no violation reproduced")
            return 0
        print("replay: reproduced class=%s detail=%s" % ("/".join(v["class"]), v["detail"]))
        same = v["class"] == obj["class"]
        print("replay: class %s recorded one" % ("matches" if same else "DIFFERS from"))
        print("VIOLATION property=%s replay=%s" % (mod.ID, replay_path))
        return 1
    budget = float(os.environ.get("VERIF_BUDGET_S", "1200")) if tier == "thorough" else None
    procs.arm_watchdog(int((budget or 600) + 1500))
    known = load_known(mod.ID)
    pool = procs.Pool()
    agg = {"evals": 0, "keys": set(), "samples": [], "sim_s": 0.0, "faults": {}, "probes": {}, "inconclusive": 0,
           "harness": 0, "tasks": 0, "workers": pool.workers}
    violations = []
    batch = 0
    try:
        while True:
            specs = mod.plan(tier, seed, batch)
            if not specs:
                break
            for spec, r in _run_chunked(pool, mod, specs, t0, budget):
                agg["tasks"] += 1
                agg["evals"] += r.get("evals", 0)
                agg["keys"].update(r.get("keys", []))
                agg["sim_s"] += r.get("sim_s", 0.0)
                agg["inconclusive"] += r.get("inconclusive", 0)
                agg["harness"] += r.get("harness", 0)
                if r.get("harness_trace") and not agg.get("trace"):
                    agg["trace"] = r["harness_trace"]
                for k, n in r.get("faults", {}).items():
                    agg["faults"][k] = agg["faults"].get(k, 0) + n
                for k, n in r.get("probes", {}).items():
                    agg["probes"][k] = agg["probes"].get(k, 0) + n
                if len(agg["samples"]) < 6:
                    agg["samples"].extend(r.get("samples", [])[:2])
                for v in r.get("violations", []):
                    v["_spec"] = spec.get("index")
                    violations.append(v)
            batch += 1
            if budget is None or time.time() - t0 > budget or len(violations) > 200:
                break
    finally:
        pool.close()
    # triage
    known_met = {}
    fresh = []
    seen_classes = set()
    for v in violations:
        k = match_known(v, known)
        if k is not None:
            known_met.setdefault(k["id"], k)
            continue
        ck = tuple(v["class"])
        if ck in seen_classes:
            continue
        seen_classes.add(ck)
        fresh.append(v)
    # exemplars of known findings are always replayed
    for k in known:
        if k["id"] in known_met or not k.get("exemplar"):
            continue
        try:
            with open(os.path.join(VERIF, k["exemplar"])) as f:
                obj = json.load(f)
            v = mod.replay(obj["replay"])
            if v is not None and match_known(v, [k]):
                known_met[k["id"]] = k
            else:
                print("NOTE: known finding %s no longer reproduces from its exemplar" % k["id"])
        except Exception as e:   # exemplar unreadable: say so, do not fail the property
            print("NOTE: exemplar of %s could not be replayed: %r" % (k["id"], e))
    wall = time.time() - t0
    agg["keys"] = sorted(agg["keys"])
    write_evidence(mod, tier, seed, agg, wall, len(fresh), sorted(known_met))
    for kid in sorted(known_met):
        print("KNOWN-FINDING: property=%s %s" % (mod.ID, known_met[kid]["what_fails"]))
    print("%s %s: tasks=%d evaluations=%d distinct_nontrivial=%d inconclusive=%d harness_errors=%d wall=%.1fs" % (
        mod.ID, tier, agg["tasks"], agg["evals"], len(agg["keys"]), agg["inconclusive"], agg["harness"], wall))
    if agg["probes"]:
        print("probes: " + ", ".join("%s=%d" % kv for kv in sorted(agg["probes"].items())[:40]))
    if agg["faults"]:
        print("faults fired: " + ", ".join("%s=%d" % kv for kv in sorted(agg["faults"].items())))
    rc = 0
    for i, v in enumerate(fresh[:20]):
        path = write_replay(mod.ID, seed, "%s-%d" % (v.get("_spec"), i), v)
        print("  class=%s :: %s" % ("/".join(v["class"]), v["detail"][:300]))
        print("VIOLATION property=%s replay=%s" % (mod.ID, path))
        rc = 1
    if agg.get("trace"):
        print("harness error (first of %d):\n%s" % (agg["harness"], agg["trace"]), file=sys.stderr)
    if agg["evals"] == 0 or agg["harness"] * 5 > max(1, agg["tasks"]):
        print("harness error: nothing was evaluated or too many tasks failed inside the harness", file=sys.stderr)
        return 2
    return rc
