"""PIPE -- run one simulated operation of the real tool (argv through execute_gasol) on SimFS.

run_op(op) is executed in a forked child of a pristine worker.  `op` is plain data (it is also the
replay file format); the result is plain data too.
"""
import io
import json
import os
import random
import sys
import traceback

from gsim.core import procs, seams, simfs, simsolver
from gsim.core.prng import digest


class SimForves:
    def __init__(self, fs, plan):
        self.fs = fs
        self.plan = list(plan or [])
        self.n = 0
        self.inputs = []

    def run_command(self, cmd):
        parts = cmd.split()
        path = parts[parts.index("-i") + 1]
        self.fs.event("forves_call", path)
        text = self.fs.files.get(path, b"").decode()
        self.inputs.append(text)
        ans = self.plan[self.n] if self.n < len(self.plan) else "true"
        self.n += 1
        return {"true": "true\n", "false": "false\n", "parsing": "parsing error\n", "garbage": "%%%\n"}[ans]


def innermost_repo_frame(tb):
    frames = traceback.extract_tb(tb)
    for fr in reversed(frames):
        if fr.filename.startswith(seams.REPO):
            return "%s:%s" % (os.path.relpath(fr.filename, seams.REPO), fr.name)
    return None


def parse_argv(mods, argv):
    from argparse import ArgumentParser
    g = mods["gasol_asm"]
    ap = ArgumentParser(description="gasol under simulation")
    g.options_gasol(ap)
    parsed = ap.parse_args(argv)
    from global_params.options import OptimizationParams
    params = OptimizationParams()
    params.parse_args(parsed)
    return params


def install_buggify(mods, bug, records):
    """Cooperative fault points and transparent recorders, by rebinding (no repo edit)."""
    g = mods["gasol_asm"]
    ir = mods["sfs_generator.ir_block"]
    if bug.get("fail_blocks") is not None or bug.get("fail_nth") is not None:
        real = ir.evm2rbr_compiler
        fail_blocks = set(bug.get("fail_blocks") or [])
        fail_nth = bug.get("fail_nth")
        cnt = {"n": 0}

        def evm2rbr_compiler(*a, **k):
            cnt["n"] += 1
            name = k.get("block_name", "")
            base = name.replace("alreadyOptimized_", "")
            if base in fail_blocks and (not bug.get("fail_first_only") or "alreadyOptimized_" not in name):
                records.setdefault("buggify_fired", []).append(("block", name))
                raise Exception("Error in RBR generation", 4)
            if fail_nth is not None and cnt["n"] == fail_nth:
                records.setdefault("buggify_fired", []).append(("nth", name))
                raise Exception("Error in RBR generation", 4)
            return real(*a, **k)
        ir.evm2rbr_compiler = evm2rbr_compiler
    if bug.get("greedy_fail"):
        real_g = g.greedy_standalone

        def greedy_standalone(sms):
            out = real_g(sms)
            records.setdefault("buggify_fired", []).append(("greedy_fail",))
            return "error", out[1], []
        g.greedy_standalone = greedy_standalone
    if bug.get("record_rebuild"):
        real_r = g.rebuild_optimized_asm_block

        def rebuild(block, sub_block_list, optimized):
            new = real_r(block, sub_block_list, optimized)
            records.setdefault("rebuild", []).append({
                "block": block.block_name,
                "instrs": [(i.disasm, i.value) for i in block.instructions],
                "sub_block_list": [list(s) for s in sub_block_list],
                "optimized": {k: (None if v is None else [(i.disasm, i.value) for i in v])
                              for k, v in optimized.items()},
                "result": [(i.disasm, i.value) for i in new.instructions]})
            return new
        g.rebuild_optimized_asm_block = rebuild
    if bug.get("record_compare"):
        real_c = g.compare_asm_block_asm_format

        def compare(old, new, params):
            try:
                eq, reason = real_c(old, new, params)
            except BaseException as e:
                records.setdefault("compare", []).append({"block": old.block_name, "exc": type(e).__name__})
                raise
            records.setdefault("compare", []).append({
                "block": old.block_name, "eq": bool(eq), "reason": reason[:200],
                "old": [(i.disasm, i.value) for i in old.instructions],
                "new": [(i.disasm, i.value) for i in new.instructions]})
            return eq, reason
        g.compare_asm_block_asm_format = compare
    if bug.get("record_sfs"):
        real_s = g.compute_original_sfs_with_simplifications
        import copy

        def compute(block, params):
            d, subs = real_s(block, params)
            records.setdefault("sfs", []).append({
                "block": block.block_name, "input": block.source_stack,
                "to_optimize": block.instructions_to_optimize_plain(),
                "sfs": copy.deepcopy(d["syrup_contract"]), "sub_block_list": copy.deepcopy(subs)})
            return d, subs
        g.compute_original_sfs_with_simplifications = compute


def _norm_push0(obj):
    """PUSH "0" and PUSH0 are two documented spellings of the same item."""
    if isinstance(obj, dict):
        if obj.get("name") == "PUSH" and obj.get("value") == "0":
            d = {k: v for k, v in obj.items() if k != "value"}
            d["name"] = "PUSH0"
            return d
        return {k: _norm_push0(v) for k, v in obj.items()}
    if isinstance(obj, list):
        return [_norm_push0(x) for x in obj]
    return obj


def run_op(op):
    """Execute one op in this (child) process; ships the result through procs.ship on a crash."""
    env = op.get("env", {})
    clock = simfs.SimClock(seed=env.get("clock_seed", 0), rate=env.get("clock_rate", 1.0))
    fs = simfs.SimFS(clock)
    for p, text in op.get("files", {}).items():
        fs.files[p] = text.encode() if isinstance(text, str) else text
        d = os.path.dirname(p)
        while d and d != "/" and d not in fs.dirs:
            fs.dirs.add(d)
            d = os.path.dirname(d)
    for d in op.get("dirs", []):
        fs.dirs.add(d)
    solver = simsolver.SimSolver(fs, op.get("peer_plan", []), random.Random(op.get("peer_seed", 0)), clock)
    if "peer_default" in op:
        solver.default = op["peer_default"]
    solver.keyed = op.get("peer_keyed", True)
    solver.by_block = op.get("peer_by_block", {})
    forves = SimForves(fs, env.get("forves_plan"))
    records = {}
    out = io.StringIO()
    res = {"exc": None, "exit": None}

    def finish(crashed=None):
        res["stdout"] = out.getvalue()
        res["events"] = fs.events
        res["seq"] = fs.seq
        res["digest"] = digest([fs.events, sorted((k, v) for k, v in res.get("files", {}).items())])
        res["fired"] = fs.fired
        res["sim_time"] = clock.now - 1000.0
        res["solver_calls"] = solver.calls
        res["forves_inputs"] = forves.inputs
        res["records"] = records
        res["crashed"] = crashed
        return res

    if op.get("crash_at") is not None:
        fs.crash_at = op["crash_at"]
        crng = random.Random(op.get("crash_seed", 0))

        def crash_hook(fs_, kind, key):
            sys.stdout, sys.stderr = sys.__stdout__, sys.__stderr__
            if op.get("crash_kind", "kill") == "kill":
                img, dirs = fs_.image_kill(crng)
            else:
                img, dirs = fs_.image_powerloss(crng)
            res["files"] = img
            res["dirs"] = sorted(dirs)
            procs.ship(finish(crashed={"kind": op.get("crash_kind", "kill"), "at_kind": kind, "at_key": key}))
        fs.crash_hook = crash_hook
    for f in op.get("fs_faults", []):
        if "at" in f:
            fs.faults[f["at"]] = (f["errno"], f.get("kinds"))
        else:
            fs.fault_on.append((f["kind"], f["path"], f.get("nth", 1), f["errno"]))

    mods = seams.install(fs, env, solver=solver, forves=forves)
    install_buggify(mods, op.get("buggify", {}), records)
    if op.get("solver_mutator"):
        from gsim.work import tamper
        solver.mutator = tamper.make_reply_mutator(op["solver_mutator"], records)
    g = mods["gasol_asm"]
    old_out, old_err = sys.stdout, sys.stderr
    sys.stdout = out
    sys.stderr = io.StringIO() if not os.environ.get("GSIM_DEBUG") else old_err
    if op.get("trace_mem"):
        import tracemalloc
        tracemalloc.start()
    try:
        try:
            g.init()
            params = parse_argv(mods, op["argv"])
            g.execute_gasol(params)
        except SystemExit as e:
            res["exit"] = e.code if isinstance(e.code, int) else 1
        except simfs.Crash:
            raise
        except BaseException as e:
            et, ev, tb = sys.exc_info()
            res["exc"] = {"type": et.__name__, "msg": str(ev)[:300], "frame": innermost_repo_frame(tb),
                          "trace": traceback.format_exc()[-3000:]}
        if op.get("reparse") and res["exc"] is None:
            # the tool's own parser re-reads what the tool has just emitted (C09)
            try:
                import json as _json
                pa = mods["sfs_generator.parser_asm"]
                outp = op["reparse"]
                text = fs.files.get(outp)
                if text is not None:
                    if "-single-json" in op["argv"] or "-c" in op["argv"]:
                        again = pa.parse_json_asm(outp).to_asm_json()
                    else:
                        again = pa.parse_asm(outp).to_json()
                    records["reparse_equal"] = (_norm_push0(again) == _norm_push0(_json.loads(text.decode())))
            except BaseException as e:
                records["reparse_exc"] = "%s: %s" % (type(e).__name__, str(e)[:200])
    finally:
        sys.stdout, sys.stderr = old_out, old_err
        if op.get("trace_mem"):
            # peak of the bytes allocated through Python's allocators during the run (deterministic, unlike RSS)
            res["mem_peak"] = tracemalloc.get_traced_memory()[1]
            tracemalloc.stop()
    res["files"] = dict(fs.files)
    res["dirs"] = sorted(fs.dirs)
    return finish()


def child_limits(op):
    n = op.get("size_hint", 50)
    return {"cpu_s": int(op.get("cpu_s", 20 + n // 20)), "as_bytes": op.get("as_bytes", 4 << 30),
            "wall_s": op.get("wall_s", 900), "as_extra": op.get("as_extra")}


def run_blocks(op):
    """API-level op for histories (C12): process op["history"] blocks, then op["block"], in this one
    process, through optimize_asm_block_asm_format + compare_asm_block_asm_format, and report what
    the *last* block got."""
    import copy
    env = op.get("env", {})
    clock = simfs.SimClock(seed=env.get("clock_seed", 0), rate=env.get("clock_rate", 1.0))
    fs = simfs.SimFS(clock)
    solver = simsolver.SimSolver(fs, op.get("peer_plan", []), random.Random(0), clock)
    solver.by_block = op.get("peer_by_block", {})
    forves = SimForves(fs, None)
    mods = seams.install(fs, env, solver=solver, forves=forves)
    g = mods["gasol_asm"]
    pa = mods["sfs_generator.parser_asm"]
    constants = mods["global_params.constants"]
    out = io.StringIO()
    old_out, old_err = sys.stdout, sys.stderr
    sys.stdout, sys.stderr = out, io.StringIO()
    result = {"exc": None}
    try:
        g.init()
        params = parse_argv(mods, ["/sim/in/h.txt", "-bl"] + op["argv"])
        if params.split_storage:
            constants.append_store_instructions_to_split()
        constants._set_push0(params.push0)
        g.modify_file_names(params)
        # op["same_name"]: indices of history members that carry the target's block name (what two contracts with the same
        # short name in one combined json produce)
        same = set(op.get("same_name") or [])
        seq = [(t, "target" if i in same else "hist%d" % i, False) for i, t in enumerate(op.get("history", []))] + [(op["block"], "target", True)]
        for text, prefix, is_target in seq:
            blocks = pa.parse_blocks_from_plain_instructions(text, "c", prefix)
            for b in blocks:
                rec = {"name": b.block_name}
                try:
                    sfs_snapshot = None
                    real = g.compute_original_sfs_with_simplifications

                    def spy(block, params_, _real=real, _rec=rec):
                        d, subs = _real(block, params_)
                        if "sfs" not in _rec:
                            _rec["sfs"] = copy.deepcopy(d["syrup_contract"])
                            _rec["subs"] = copy.deepcopy(subs)
                        return d, subs
                    g.compute_original_sfs_with_simplifications = spy
                    try:
                        new_block, log, stats = g.optimize_asm_block_asm_format(b, params)
                    finally:
                        g.compute_original_sfs_with_simplifications = real
                    eq, reason = g.compare_asm_block_asm_format(b, new_block, params)
                    rec["new"] = [(i.disasm, i.value) for i in new_block.instructions]
                    rec["log"] = log
                    rec["stats"] = [{k: v for k, v in row.items() if "time" not in k} for row in stats]
                    rec["eq"] = bool(eq)
                    rec["reason"] = reason
                    rec["gas"] = (b.gas_spent, new_block.gas_spent)
                except BaseException as e:
                    rec["exc"] = "%s: %s" % (type(e).__name__, str(e)[:200])
                if is_target:
                    result.setdefault("target", []).append(rec)
    except BaseException as e:
        result["exc"] = "%s: %s" % (type(e).__name__, str(e)[:300])
    finally:
        sys.stdout, sys.stderr = old_out, old_err
    result["solver_calls"] = [(c["block"], c["kind"]) for c in solver.calls]
    result["sim_time"] = clock.now - 1000.0
    return result


def run_op_seq(ops):
    """Several ops in ONE process (module state persists between them, SimFS is fresh per op)."""
    out = []
    for op in ops:
        r = run_op(op)
        out.append(r)
    return out


def run_specs(op):
    """Front-end only: specification of every block text in op["blocks"] under op["argv"] flags.
    Returns per block {"sfs": {...}, "subs": [...], "input": n} or {"exc": "..."}; every block starts
    from restored module state only once (same process), as the tool itself would process them."""
    import copy
    fs = simfs.SimFS()
    mods = seams.install(fs, op.get("env", {}))
    g = mods["gasol_asm"]
    pa = mods["sfs_generator.parser_asm"]
    constants = mods["global_params.constants"]
    old_out, old_err = sys.stdout, sys.stderr
    sys.stdout, sys.stderr = io.StringIO(), io.StringIO()
    out = []
    try:
        g.init()
        params = parse_argv(mods, ["/sim/in/s.txt", "-bl"] + op["argv"])
        if params.split_storage:
            constants.append_store_instructions_to_split()
        constants._set_push0(params.push0)
        for bi, text in enumerate(op["blocks"]):
            try:
                blocks = pa.parse_blocks_from_plain_instructions(text, "c", "b%d" % bi)
                b = blocks[0]
                d, subs = g.compute_original_sfs_with_simplifications(b, params)
                out.append({"sfs": copy.deepcopy(d["syrup_contract"]), "subs": copy.deepcopy(subs), "input": b.source_stack,
                            "to_optimize": b.instructions_to_optimize_plain(), "name": b.block_name})
                if op.get("get_subblocks"):
                    # the second entry point that reports sub-blocks (used by the predictor front-end), called as gasol_asm does
                    ir = mods["sfs_generator.ir_block"]
                    try:
                        out[-1]["get_subblocks"] = copy.deepcopy(ir.get_subblocks(
                            {"instructions": b.instructions_to_optimize_plain(), "input": b.source_stack},
                            storage=params.split_storage, part=params.split_partition))
                    except BaseException as e:
                        if isinstance(e, procs.Budget):
                            raise
                        out[-1]["get_subblocks_exc"] = "%s: %s" % (type(e).__name__, str(e)[:200])
                if op.get("rebuild_probe"):
                    out[-1]["rebuild_probe"] = _rebuild_probe(g, pa, b, subs)
            except BaseException as e:
                if isinstance(e, procs.Budget):
                    raise
                out.append({"exc": "%s: %s" % (type(e).__name__, str(e)[:200])})
    finally:
        sys.stdout, sys.stderr = old_out, old_err
    return out


def _rebuild_probe(g, pa, b, subs):
    """The real rebuild_optimized_asm_block driven with replacements chosen by the harness (what a back-end or a log could
    hand it): nothing replaced, and for every sub-block k the empty sequence, a copy of the split instruction that follows /
    precedes it, its own instructions, and a neutral pair; also two neighbours replaced by the empty sequence."""
    import copy
    m = len(subs)
    name = b.block_name

    def instrs_of(plain_list):
        if not plain_list:
            return []
        blk = pa.parse_blocks_from_plain_instructions(" ".join(plain_list), "c", "r")
        return [i for x in blk for i in x.instructions]
    plans = [{}]
    for k in range(m):
        inner = list(subs[k])[(1 if k > 0 else 0):(len(subs[k]) - 1 if k < m - 1 else len(subs[k]))]
        cands = [[], inner, ["PUSH 1", "POP"]]
        if k < m - 1:
            cands.append([subs[k][-1]])
            cands.append(["PUSH 1", "POP", subs[k][-1]])
        if k > 0:
            cands.append([subs[k][0]])
        for c in cands:
            plans.append({k: c})
        if k < m - 1:
            plans.append({k: [], k + 1: []})
    recs = []
    for plan in plans[:80]:
        rec = {"block": name, "instrs": [(i.disasm, i.value) for i in b.instructions], "sub_block_list": [list(s) for s in subs]}
        try:
            optimized = {"%s_%d" % (name, k): instrs_of(c) for k, c in plan.items()}
            rec["optimized"] = {k: [(i.disasm, i.value) for i in v] for k, v in optimized.items()}
            new = g.rebuild_optimized_asm_block(copy.deepcopy(b), copy.deepcopy(subs), optimized)
            rec["result"] = [(i.disasm, i.value) for i in new.instructions]
        except BaseException as e:
            if isinstance(e, procs.Budget):
                raise
            rec.setdefault("optimized", {})
            rec["exc"] = "%s: %s" % (type(e).__name__, str(e)[:200])
        recs.append(rec)
    return recs


def run_solve(op):
    """Front-end + real encoder + simulated solver peer on each sub-block specification.
    op: {"argv": flags, "blocks": [text], "peers": [plan entries], "max_len": n, "greedy": bool}
    Returns a list of {"key", "sfs", "smt2", "results": [{"peer", "outcome", "ids", "exc", "cost"}], "greedy": ids|None}."""
    import copy
    import re as _re
    env = op.get("env", {})
    clock = simfs.SimClock()
    fs = simfs.SimFS(clock)
    solver = simsolver.SimSolver(fs, [], random.Random(0), clock)
    solver.keyed = False
    mods = seams.install(fs, env, solver=solver)
    g = mods["gasol_asm"]
    pa = mods["sfs_generator.parser_asm"]
    bo = mods["smt_encoding.block_optimizer"]
    gr = mods["greedy.block_generation"]
    constants = mods["global_params.constants"]
    old_out, old_err = sys.stdout, sys.stderr
    sys.stdout, sys.stderr = io.StringIO(), io.StringIO()
    out = []
    try:
        g.init()
        params = parse_argv(mods, ["/sim/in/s.txt", "-bl"] + op["argv"])
        if params.split_storage:
            constants.append_store_instructions_to_split()
        constants._set_push0(params.push0)
        for bi, text in enumerate(op["blocks"]):
            try:
                b = pa.parse_blocks_from_plain_instructions(text, "c", "b%d" % bi)[0]
                d, subs = g.compute_original_sfs_with_simplifications(b, params)
            except BaseException as e:
                if isinstance(e, procs.Budget):
                    raise
                out.append({"block": bi, "exc": "%s: %s" % (type(e).__name__, str(e)[:200])})
                continue
            inner = [list(x) for x in subs]
            for k in range(len(subs) - 1):
                inner[k] = inner[k][:-1]
                inner[k + 1] = inner[k + 1][1:]
            for key, sfs in d["syrup_contract"].items():
                if sfs["init_progr_len"] > op.get("max_len", 8) or sfs["init_progr_len"] <= 0:
                    continue
                k = int(key.rsplit("_", 1)[1])
                rec = {"block": bi, "key": key, "sfs": copy.deepcopy(sfs), "results": [], "smt2": None,
                       "sub_block": inner[k] if k < len(inner) else None, "greedy": None, "block_text": text}
                if op.get("greedy"):
                    try:
                        _, _, _, gids, err = gr.greedy_from_json(copy.deepcopy(sfs))
                        rec["greedy"] = list(gids) if err == 0 else None
                    except BaseException as e:
                        if isinstance(e, procs.Budget):
                            raise
                        rec["greedy"] = None
                tout = params.timeout * (1 + len([1 for i in sfs["user_instrs"] if i["storage"]]))
                peers = []
                for peer in op["peers"]:
                    if peer["kind"] != "refute_order":
                        peers.append(peer)
                        continue
                    # expanded below, once the encoder has told us how it names the instructions
                    peers.append(peer)
                expanded = []
                for peer in peers:
                    if peer["kind"] == "refute_order":
                        try:
                            probe = bo.BlockOptimizer(key, copy.deepcopy(sfs), params, tout)
                            th = {ins.id: str(t) for t, ins in probe._full_encoding.theta_to_instr.items()}
                            uf = params.encode_terms == "uninterpreted_uf"
                            b0 = sfs["init_progr_len"]
                            for a, b in sfs.get("dependencies", [])[:3]:
                                if a not in th or b not in th:
                                    continue
                                ta = ("theta_" + th[a]) if uf else th[a]
                                tb = ("theta_" + th[b]) if uf else th[b]
                                terms = ["(and (= t_%d %s) (= t_%d %s))" % (i, tb, j, ta) for i in range(b0) for j in range(i + 1, b0)]
                                if terms:
                                    expanded.append({"kind": "extra", "assert": "(assert (or %s))" % " ".join(terms), "pair": [a, b]})
                        except BaseException as e:
                            if isinstance(e, procs.Budget):
                                raise
                    else:
                        expanded.append(peer)
                for peer in expanded:
                    solver.plan = [dict(peer, keep_smt2=True)]
                    solver.n = 0
                    solver.calls = []
                    solver.asked = {}
                    r = {"peer": peer, "outcome": None, "ids": None, "exc": None, "cost": None}
                    try:
                        optimizer = bo.BlockOptimizer(key, copy.deepcopy(sfs), params, tout)
                        if rec.get("theta") is None:
                            try:
                                rec["theta"] = {str(t): ins.id for t, ins in optimizer._full_encoding.theta_to_instr.items()}
                            except Exception:
                                rec["theta"] = None
                        outcome, _, ids = optimizer.optimize_block()
                        r["outcome"] = outcome.name
                        r["ids"] = list(ids)
                    except BaseException as e:
                        if isinstance(e, procs.Budget):
                            raise
                        tb = sys.exc_info()[2]
                        r["exc"] = "%s: %s" % (type(e).__name__, str(e)[:200])
                        r["frame"] = innermost_repo_frame(tb)
                    if solver.calls:
                        r["queries"] = [(c["kind"], c["asserts"], c["softs"]) for c in solver.calls]
                        if rec["smt2"] is None:
                            rec["smt2"] = solver.calls[0]["smt2"]
                        reply = solver.prev_reply
                        m = _re.search(r"\(cost (\d+)\)", reply)
                        r["cost"] = int(m.group(1)) if m else None
                        r["head"] = reply.split("\n", 1)[0][:30]
                        r["z3_error"] = "(error" in reply and "model is not available" not in reply and "model generation not enabled" not in reply
                    rec["results"].append(r)
                out.append(rec)
    finally:
        sys.stdout, sys.stderr = old_out, old_err
    return out


def run_compare(op):
    """API-level op for C05: the tool's own block comparison on pairs of plain-text blocks.
    op: {"argv": flags, "pairs": [[textA, textB], ...]} -> [{"eq": bool, "reason": str} | {"exc": str, "frame": str}]"""
    fs = simfs.SimFS()
    mods = seams.install(fs, op.get("env", {}))
    g = mods["gasol_asm"]
    pa = mods["sfs_generator.parser_asm"]
    constants = mods["global_params.constants"]
    old_out, old_err = sys.stdout, sys.stderr
    sys.stdout, sys.stderr = io.StringIO(), io.StringIO()
    out = []
    try:
        g.init()
        params = parse_argv(mods, ["/sim/in/s.txt", "-bl"] + op["argv"])
        if params.split_storage:
            constants.append_store_instructions_to_split()
        constants._set_push0(params.push0)
        real = g._compare_asm_block_asm_format if hasattr(g, "_compare_asm_block_asm_format") else None
        for pi, (ta, tb) in enumerate(op["pairs"]):
            try:
                a = pa.parse_blocks_from_plain_instructions(ta, "c", "p%d" % pi)[0]
                b = pa.parse_blocks_from_plain_instructions(tb, "c", "p%d" % pi)[0]
                b.set_block_name(a.get_block_name())
                b.set_block_id(a.get_block_id())
            except BaseException as e:
                out.append({"parse_exc": "%s: %s" % (type(e).__name__, str(e)[:100])})
                continue
            rec = {}
            # the raw comparison (does it raise?) and the contained one (what the pipeline sees)
            if real is not None:
                try:
                    real(a, b, params)
                except BaseException as e:
                    if isinstance(e, procs.Budget):
                        raise
                    rec["raw_exc"] = "%s: %s" % (type(e).__name__, str(e)[:120])
                    rec["raw_frame"] = innermost_repo_frame(sys.exc_info()[2])
                b.set_block_name(a.get_block_name())
            try:
                eq, reason = g.compare_asm_block_asm_format(a, b, params)
                rec["eq"] = bool(eq)
                rec["reason"] = str(reason)[:200]
            except BaseException as e:
                if isinstance(e, procs.Budget):
                    raise
                rec["exc"] = "%s: %s" % (type(e).__name__, str(e)[:120])
                rec["frame"] = innermost_repo_frame(sys.exc_info()[2])
            out.append(rec)
    finally:
        sys.stdout, sys.stderr = old_out, old_err
    return out
