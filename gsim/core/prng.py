"""One integer decides everything: named, independent PRNG streams derived from VERIF_SEED."""
import hashlib
import os
import random


def verif_seed():
    try:
        return int(os.environ.get("VERIF_SEED", "1"))
    except ValueError:
        return 1


def stream(seed, run_index, purpose):
    """Random stream for (seed, run index, purpose).  Adding a new purpose never shifts others."""
    h = hashlib.sha256(("gsim|%d|%d|%s" % (seed, run_index, purpose)).encode()).digest()
    return random.Random(int.from_bytes(h, "big"))


def digest(obj):
    """Stable digest of plain data (lists/dicts/str/int/bytes/None/tuples)."""
    m = hashlib.sha256()
    _feed(m, obj)
    return m.hexdigest()[:24]


def _feed(m, obj):
    if isinstance(obj, dict):
        m.update(b"{")
        for k in sorted(obj, key=lambda x: (str(type(x)), str(x))):
            _feed(m, k)
            m.update(b":")
            _feed(m, obj[k])
        m.update(b"}")
    elif isinstance(obj, (list, tuple)):
        m.update(b"[")
        for x in obj:
            _feed(m, x)
            m.update(b",")
        m.update(b"]")
    elif isinstance(obj, bytes):
        m.update(b"b")
        m.update(obj)
    else:
        m.update(repr(obj).encode())
