"""Install the simulator behind the seams the repository already has.

Python resolves `open`, `os`, `run_command`, `dtimer`, ... in the *module's* globals at call time, so
rebinding those names in each repo module puts SimFS / SimClock / SimSolver behind them without
editing /repo.  Everything is installed per run, inside the forked child.
"""
import os as _real_os
import sys
import types

from gsim.core import simfs as _simfs

REPO = _real_os.environ.get("GASOL_REPO", "/repo")

_loaded = None


def load_repo():
    """Import the repository's modules once (in the pristine worker)."""
    global _loaded
    if _loaded is not None:
        return _loaded
    if sys.path[0] != REPO:
        sys.path.insert(0, REPO)
    import warnings
    warnings.simplefilter("ignore")
    import importlib
    names = ["gasol_asm", "global_params.paths", "global_params.constants", "sfs_generator.ir_block",
             "sfs_generator.gasol_optimization", "sfs_generator.parser_asm", "sfs_generator.utils",
             "smt_encoding.block_optimizer", "smt_encoding.solver.solver_from_executable",
             "verification.forves_verification", "greedy.block_generation",
             "solution_generation.optimize_from_sub_blocks", "solution_generation.ids2asm",
             "verification.sfs_verify", "smt_encoding.json_with_dependencies"]
    mods = {}
    for n in names:
        mods[n] = importlib.import_module(n)
    global _repo_tmp_path
    _repo_tmp_path = mods["global_params.paths"].tmp_path
    _loaded = mods
    return mods


_repo_tmp_path = "/tmp/"


class SimOS:
    """Proxy for the `os` module: simulated calls go to SimFS, the rest to the real module."""

    def __init__(self, fs):
        self._fs = fs
        self.path = _real_os.path
        self.devnull = _real_os.devnull

    def listdir(self, p):
        return self._fs.listdir(p)

    def mkdir(self, p, *a, **k):
        return self._fs.mkdir(p)

    def remove(self, p):
        return self._fs.remove(p)

    def close(self, fd):
        return self._fs.close_fd(fd)

    def __getattr__(self, name):
        return getattr(_real_os, name)


class SimPath:
    def __init__(self, fs, p, env):
        self._fs = fs
        self._p = str(p)
        self._env = env

    def joinpath(self, *parts):
        return SimPath(self._fs, "/".join([self._p.rstrip("/")] + [str(x) for x in parts]), self._env)

    def mkdir(self, parents=False, exist_ok=False, **kw):
        return self._fs.mkdir(self._p, parents=parents, exist_ok=exist_ok)

    def exists(self):
        if self._p.endswith("forves-checker"):
            self._fs.event("exists", self._p)
            return bool(self._env.get("forves_present"))
        return self._fs.exists(self._p)

    def __str__(self):
        return self._p

    def __fspath__(self):
        return self._p


class SimResource:
    RUSAGE_SELF = 0
    RUSAGE_CHILDREN = -1

    def __init__(self, clock):
        self._clock = clock

    def getrusage(self, who):
        self._clock.tick(1e-4)
        return types.SimpleNamespace(ru_utime=self._clock.now, ru_stime=0.0)


def _light_dataframe(fs):
    """Stand-in for `pd.DataFrame(rows).to_csv(path)`: same table (index column, union of the keys in
    first-seen order, empty cell for a missing value), rendered with the csv module.  pandas itself
    costs ~25 ms and hundreds of page faults per run, which are serialised in this sandbox; set
    env["real_pandas"] to render with the real library (selftest compares both)."""
    import csv
    import io

    class LightDataFrame:
        def __init__(self, rows):
            self.rows = list(rows)

        def to_csv(self, path=None):
            cols = []
            for r in self.rows:
                for k in r:
                    if k not in cols:
                        cols.append(k)
            buf = io.StringIO()
            w = csv.writer(buf, lineterminator="\n")
            if not cols:
                buf.write('""\n')
            else:
                w.writerow([""] + cols)
                for i, r in enumerate(self.rows):
                    w.writerow([i] + ["" if r.get(c) is None else r.get(c) for c in cols])
            if path is None:
                return buf.getvalue()
            fs.write_whole(path, buf.getvalue())
    return LightDataFrame


def install(fs, env, solver=None, forves=None):
    """Rebind the seams in every repo module.  `env` is a plain dict of run settings:
    tmp_name, forves_present.  Returns the dict of repo modules."""
    mods = load_repo()
    import pandas as _pd

    sim_os = SimOS(fs)
    clock = fs.clock

    def sim_open(path, mode="r", *a, **k):
        return fs.open(path, mode, *a, **k)

    if env.get("real_pandas"):
        class SimDataFrame(_pd.DataFrame):
            def to_csv(self, path=None, *a, **k):
                text = _pd.DataFrame.to_csv(self, None, *a, **k)
                if path is None:
                    return text
                fs.write_whole(path, text)
    else:
        SimDataFrame = _light_dataframe(fs)

    sim_pd = types.SimpleNamespace(DataFrame=SimDataFrame)
    sim_shutil = types.SimpleNamespace(rmtree=fs.rmtree)
    sim_pathlib = types.SimpleNamespace(Path=lambda p: SimPath(fs, p, env))
    sim_tempfile = types.SimpleNamespace(mkstemp=fs.mkstemp)
    sim_resource = SimResource(clock)

    paths = mods["global_params.paths"]
    name = env.get("tmp_name", "sim0")
    # the temporary directory is the one the repository itself chose at import time (it may depend on the process
    # environment), mounted under /sim; that directory exists, as the real one would
    paths.tmp_path = "/sim" + (_repo_tmp_path if _repo_tmp_path.startswith("/") else "/" + _repo_tmp_path)
    d = paths.tmp_path.rstrip("/")
    while d and d != "/sim":
        fs.dirs.add(d)
        d = _real_os.path.dirname(d)
    paths.gasol_folder = "gasol_" + name
    paths.gasol_path = paths.tmp_path + paths.gasol_folder + "/"
    paths.json_path = paths.gasol_path + "jsons"
    paths.smt_encoding_path = paths.gasol_path + "smt_encoding/"
    paths.solutions_path = paths.gasol_path + "solutions/"
    paths.dot_path = paths.gasol_path + "dot/"
    paths.csv_file = paths.gasol_path + "solutions/statistics.csv"

    g = mods["gasol_asm"]
    g.open = sim_open
    g.shutil = sim_shutil
    g.pd = sim_pd
    g.dtimer = clock.timer
    g.os = sim_os

    ir = mods["sfs_generator.ir_block"]
    ir.open = sim_open
    ir.os = sim_os
    ir.dtimer = clock.timer

    go = mods["sfs_generator.gasol_optimization"]
    go.open = sim_open
    go.os = sim_os
    go.dtimer = clock.timer

    pa = mods["sfs_generator.parser_asm"]
    pa.open = sim_open

    bo = mods["smt_encoding.block_optimizer"]
    bo.open = sim_open
    bo.pathlib = sim_pathlib

    se = mods["smt_encoding.solver.solver_from_executable"]
    se.open = sim_open
    se.resource = sim_resource
    if solver is not None:
        se.run_command = solver.run_command

    fv = mods["verification.forves_verification"]
    fv.open = sim_open
    fv.os = sim_os
    fv.Path = lambda p: SimPath(fs, p, env)
    fv.tempfile = sim_tempfile
    if forves is not None:
        fv.run_command = forves.run_command

    gr = mods["greedy.block_generation"]
    gr.resource = sim_resource
    return mods
