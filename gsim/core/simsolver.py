"""SimSolver -- the external Max-SMT solver process, played by the simulator.

It sits behind `solver_from_executable.run_command`.  It reads the .smt2 text the real encoder has
just written into SimFS and answers according to the run's *peer plan* (one entry per solver call).
Models are computed by the real z3 binary; the wall-clock `:timeout` is replaced by `:rlimit` so a
"timeout" is a function of the input, not of machine load.

For `-solver oms` the reply is z3's model re-formatted into the shape oms_executable.py parses:
OptiMathSAT is an empty file in this tree, so that path is a wire-format *stub*.
"""
import hashlib
import os
import re
import shlex
import subprocess
import tempfile

Z3 = os.environ.get("GSIM_Z3", "/usr/bin/z3")
RLIMIT_FULL = int(os.environ.get("GSIM_RLIMIT", "60000000"))

_DEF0 = re.compile(r"\(define-fun\s+(\S+)\s+\(\)\s+(\S+)\s+([^()\s]+|\(- \d+\))\)")


def z3_run(text, rlimit=RLIMIT_FULL, seed=0, extra_opts=()):
    text = re.sub(r"\(set-option :timeout [^)]*\)", "", text)
    opts = ["(set-option :rlimit %d)" % rlimit]
    if seed:
        opts.append("(set-option :smt.random_seed %d)" % seed)
        opts.append("(set-option :sat.random_seed %d)" % seed)
    opts.extend(extra_opts)
    # options must come after set-logic for z3; insert right after the first line
    lines = text.split("\n")
    for i, l in enumerate(lines):
        if l.startswith("(set-logic"):
            lines[i + 1:i + 1] = opts
            break
    else:
        lines[0:0] = opts
    d = "/dev/shm" if os.path.isdir("/dev/shm") else None
    fd, path = tempfile.mkstemp(prefix="gsim-z3-", suffix=".smt2", dir=d)
    try:
        with os.fdopen(fd, "w") as f:
            f.write("\n".join(lines))
        p = subprocess.run([Z3, "-smt2", path], stdout=subprocess.PIPE, stderr=subprocess.DEVNULL)
        return p.stdout.decode()
    finally:
        try:
            os.remove(path)
        except OSError:
            pass


def parse_model(reply):
    """name -> value for every 0-ary define-fun in a z3 reply."""
    flat = re.sub(r"\s+", " ", reply)
    return {m.group(1): m.group(3) for m in _DEF0.finditer(flat)}


def model_sequence(reply):
    """Decode t_0..t_n from a z3 reply into theta names (or ints) -- used only for blocking clauses."""
    mod = parse_model(reply)
    ts = sorted((int(k[2:]), v) for k, v in mod.items() if re.fullmatch(r"t_\d+", k))
    inv = {}
    for k, v in mod.items():
        if k.startswith("theta_"):
            inv[v] = k
    return [(j, inv.get(v, v)) for j, v in ts]


def strip_soft(text):
    return "\n".join(l for l in text.split("\n")
                     if not l.startswith("(assert-soft") and not l.startswith("(minimize")
                     and not l.startswith("(get-objectives"))


def reweight(text, rng, mode):
    out = []
    for l in text.split("\n"):
        if l.startswith("(assert-soft"):
            if mode == "maximise":
                # flip every soft constraint: paying is now rewarded
                m = re.match(r"\(assert-soft (.*) :weight (\d+)(.*)\)$", l)
                if m:
                    l = "(assert-soft (not %s) :weight %s%s)" % (m.group(1), m.group(2), m.group(3))
            else:
                l = re.sub(r":weight \d+", ":weight %d" % rng.randrange(1, 50), l)
        out.append(l)
    return "\n".join(out)


def to_oms_format(reply, partial=False):
    """Re-render a z3 reply the way oms_executable.py expects (single-line define-funs)."""
    head = reply.split("\n", 1)[0].strip()
    if head == "unsat":
        return "unsat\n"
    if head != "sat":
        return "unknown\n(error \"model generation not enabled\")\n"
    mod = parse_model(reply)
    cost = re.search(r"\(cost (\d+)\)", reply)
    c = cost.group(1) if cost else "0"
    obj = " (cost %s)" % c if not partial else " (cost %s), partial search, range: [ 0, %s ]" % (c, c)
    lines = ["sat", "", "(objectives", obj, ")", "(model"]
    for k in sorted(mod, key=lambda s: (re.sub(r"\d+", "", s), [int(x) for x in re.findall(r"\d+", s)])):
        lines.append("  (define-fun %s () X %s)" % (k, mod[k]))
    lines.append(")")
    return "\n".join(lines) + "\n"


class SimSolver:
    def __init__(self, fs, plan, rng, clock):
        self.fs = fs
        self.plan = list(plan)       # entries: {"kind": ..., ...}
        self.default = {"kind": "optimal"}
        self.rng = rng
        self.clock = clock
        self.calls = []              # record: (file, kind, outcome head, decoded seq or None)
        self.prev_reply = ""
        self.n = 0
        self.keyed = True
        self.by_block = {}
        self.asked = {}              # block -> number of queries seen (for the gives_up_once peer)
        self.mutator = None          # callable(reply_text, call_record) -> reply_text (C05 corrupt peer)

    def run_command(self, cmd):
        parts = shlex.split(cmd)
        oms = parts[0].endswith("optimathsat")
        path = parts[2] if parts[1] == "-smt2" else parts[1]
        base = os.path.basename(path)
        block = base.split("_encoding_")[0]
        if block in self.by_block:
            entry = self.by_block[block]
        elif self.plan and self.keyed:
            # keyed by the problem's name, not by call order: a run in which an earlier block fails
            # (no solver call) still gives every other block the same peer behaviour
            h = int.from_bytes(hashlib.sha256(block.encode()).digest()[:8], "big")
            entry = self.plan[h % len(self.plan)]
        elif self.n < len(self.plan):
            entry = self.plan[self.n]
        else:
            entry = self.default
        self.n += 1
        if entry["kind"] == "gives_up_once":
            # the solver runs out of time on the first query about a problem and answers honestly if it is asked again
            seen = self.asked.get(block, 0)
            self.asked[block] = seen + 1
            entry = dict(entry, kind="no_model" if seen == 0 else "optimal")
        self.fs.event("solver_call", path + "#" + entry["kind"])
        f = self.fs.open(path, "r")
        text = f.read()
        f.close()
        reply = self.answer(text, entry, oms)
        rec = {"file": path, "block": block, "kind": entry["kind"], "head": reply.split("\n", 1)[0][:40], "oms": oms,
               "smt2": text if entry.get("keep_smt2") else None, "asserts": text.count("(assert "), "softs": text.count("(assert-soft ")}
        self.calls.append(rec)
        if self.mutator is not None:
            reply = self.mutator(reply, rec, text)
        self.prev_reply = reply
        self.clock.advance(entry.get("duration", 0.05))
        return reply

    # -- plan kinds --------------------------------------------------------------------------
    def answer(self, text, entry, oms):
        kind = entry["kind"]
        if oms:
            text = text.replace("(minimize cost)", "")
        fmt = (lambda r, partial=False: to_oms_format(r, partial)) if oms else (lambda r, partial=False: r)
        if kind == "optimal":
            return fmt(z3_run(text, rlimit=entry.get("rlimit", RLIMIT_FULL)))
        if kind == "timeout":
            r = z3_run(text, rlimit=entry.get("rlimit", 20000))
            return fmt(r, partial=True) if oms else r
        if kind in ("any_model", "non_optimal"):
            r = z3_run(strip_soft(text), seed=entry.get("seed", 1),
                       extra_opts=["(set-option :smt.phase_selection %d)" % (entry.get("seed", 1) % 6)])
            if kind == "non_optimal" and r.startswith("sat"):
                if oms:
                    return to_oms_format(r, partial=True)
                r = r.replace("sat\n", "sat\n(objectives\n (cost (interval 0 100000))\n)\n", 1)
            return fmt(r) if oms else r
        if kind == "skewed":
            import random
            r = z3_run(reweight(text, random.Random(entry.get("seed", 1)), entry.get("mode", "random")))
            return fmt(r)
        if kind == "nth_model":
            cur = strip_soft(text)
            r = z3_run(cur)
            for _ in range(entry.get("n", 1)):
                if not r.startswith("sat"):
                    break
                seq = model_sequence(r)
                if not seq:
                    break
                clause = "(assert (not (and %s)))" % " ".join("(= t_%d %s)" % (j, v) for j, v in seq)
                cur = cur.replace("(check-sat)", clause + "\n(check-sat)", 1)
                r2 = z3_run(cur)
                if not r2.startswith("sat"):
                    break          # model set exhausted: answer with the last model found
                r = r2
            return fmt(r)
        if kind == "extra":
            # a peer that looks for a model with an extra property (used to search for models that break an
            # ordering constraint of the specification); unsat means no such model exists
            cur = strip_soft(text).replace("(check-sat)", entry["assert"] + "\n(check-sat)", 1)
            return fmt(z3_run(cur, seed=entry.get("seed", 0)))
        if kind == "no_model":
            if oms:
                return "unknown\n(error \"model generation not enabled\")\n"
            return "unknown\n(objectives\n)\n(error \"line 1 column 1: model is not available\")\n"
        if kind == "no_model_bounds":
            # what z3 4.8.12 prints when the time runs out after it has bounds for the objective but before it has a model
            if oms:
                return "unknown\n(error \"model generation not enabled\")\n"
            return "unknown\n(objectives\n (cost (interval 0 %d))\n)\n(error \"line 1 column 1: model is not available\")\n" % entry.get("upper", 117)
        if kind == "unsat":
            if oms:
                return "unsat\n"
            return "unsat\n(objectives\n)\n(error \"line 1 column 1: model is not available\")\n"
        if kind == "dead":
            return ""
        if kind == "truncated":
            r = fmt(z3_run(text))
            return r[:int(len(r) * entry.get("at", 0.5))]
        if kind == "garbage":
            return "Segmentation fault (core dumped)\n\x00\x01 t_0 (((\n"
        if kind == "stale":
            return self.prev_reply
        raise ValueError("unknown peer kind " + kind)
