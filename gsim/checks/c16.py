"""C16 -- the numeric bounds published in a specification are valid.

For every specification seen (split modes x rules x PUSH0): (feasibility) a realizing sequence within
init_progr_len / max_sk_sz is sought from the solver peer (validated by R2 -- C06 is not assumed), from the
greedy back-end, and for init_progr_len <= 6 from the brute-force synthesiser R6; a violation is reported
only when R6 has exhausted the bounded space without a witness, larger instances without a witness are
counted as undecided; (min_length) every R2-validated realizing sequence observed -- solver models of several
kinds, greedy, R6's shortest -- must be at least min_length long; (original_instrs) equals the sub-block the
splitter reported.
"""
from gsim.core import pipe, procs
from gsim.core.prng import stream, digest
from gsim.ref import asmjson as AJ
from gsim.ref import symstack as R2
from gsim.ref import synth as R6
from gsim.work import blocks as B
from gsim.work import corpus

ID = "C16"
LEVEL = "exploration"
RULE = ("one evaluation = one specification whose published bounds are confronted with the history of realizing sequences observed for it "
        "(solver peers: optimal under the -length criterion, arbitrary and reweighted models; greedy; brute force R6 when init_progr_len "
        "<= 6), each validated by R2; non-trivial = at least one rule fired (the discount bookkeeping is exercised) or the specification "
        "has memory/storage operations; distinct = digest of the specification")
COMPONENTS = {"real": ["front-end bound arithmetic (generate_json, compute_vars)", "json_with_dependencies.extended_json_with_minlength",
                       "greedy back-end", "smt encoder + z3 4.8.12 as witness finder / length optimiser"], "stub": ["SimFS"]}
ASSUMPTIONS = ["infeasibility is only reported when R6 exhausted the space (init_progr_len <= 6); larger instances without witness are undecided",
               "R2 is the definition of 'realizes'"]

PEERS = [{"kind": "optimal", "rlimit": 30000000}, {"kind": "any_model", "seed": 2}, {"kind": "skewed", "seed": 7, "mode": "random"}]


def plan(tier, seed, batch):
    if tier == "quick":
        if batch > 0:
            return []
        n = 160
    else:
        n = 700
    return [{"index": batch * 100000 + i, "seed": seed, "tier": tier} for i in range(n)]


SWEEP_TASKS = 14

ABSORB = [[("PUSH", "0"), ("MUL", None)], [("PUSH", "0"), ("AND", None)], [("DUP1", None), ("XOR", None)], [("DUP1", None), ("SUB", None)],
          [("PUSH", "1"), ("SWAP1", None), ("MOD", None)], [("PUSH", "0"), ("SWAP1", None), ("EXP", None)], [("DUP1", None), ("EQ", None)],
          [("PUSH", "0"), ("SWAP1", None), ("DIV", None)], [("POP", None), ("PUSH", "0")], [("DUP1", None), ("GT", None)],
          [("PUSH", "ffffffffffffffffffffffffffffffffffffffffffffffffffffffffffffffff"), ("OR", None)]]


def bookkeeping_bait(rw):
    """Blocks where a rule makes a *consumed stack input* useless (it then has to be popped: the discount bookkeeping is at stake),
    and store-to-load forwarding patterns (the forwarded value has to survive the store: the stack bound is at stake)."""
    items = []
    for _ in range(rw.choice([1, 1, 2])):
        k = rw.random()
        if k < 0.5:
            items += rw.choice(ABSORB)
            items += rw.choice([[], [(rw.choice(["ADD", "SUB", "LT", "OR"]), None)], [("SWAP1", None)], [("POP", None)]])
        else:
            sp = rw.choice(["M", "S"])
            addr = rw.choice([[("PUSH", "40")], [("PUSH", "0")], [("DUP2", None)], [("PUSH", "20")]])
            if addr[0][0] == "DUP2":
                items += [("DUP2", None), ("DUP2", None), (sp + "STORE", None), (sp + "LOAD", None)]
            else:
                items += addr + [(sp + "STORE", None)] + addr + [(sp + "LOAD", None)]
            items += rw.choice([[], [("ADD", None)], [("DUP1", None)], [("SWAP1", None), ("POP", None)]])
    return items


def gen_blocks(rw, n):
    out = []
    for _ in range(n):
        r = rw.random()
        if r < 0.3:
            out.append(bookkeeping_bait(rw))
            continue
        if r < 0.45:
            # a nested rule pattern whose inner term survives (or is used twice): the rule fires, but removes less than it books
            g = B.Gen(rw, {"pseudo": False, "bait": 0})
            g.h = 3
            nested = [t for t in B.BAIT if any(a[0] == "op" for a in t[2])]
            t = g.instantiate(rw.choice(nested), 3, 1)
            g.compile(("keepinner", t) if rw.random() < 0.7 else ("twice", rw.choice(["ADD", "LT"]), t))
            out.append(g.items + rw.choice([[], [("SWAP1", None)], [("POP", None)]]))
            continue
        r = rw.random()
        if r < 0.25:
            b = corpus.sample_blocks(rw, 1, max_len=12)[0]
            b = [it for it in b if it[0] not in ("tag", "JUMPDEST")]
        else:
            b = B.gen_block(rw, length=rw.choice([2, 3, 4, 5, 6, 8, 10]), depth=rw.choice([0, 1, 2, 3, 4, 6]), pseudo=True,
                            ending=False, profile=rw.choice(["rules", "rules", "memory", "stack", "plain", "nasty"]))
        out.append(b)
    return out


def build(spec):
    i = spec["index"]
    rw = stream(spec["seed"], i, "workload")
    ro = stream(spec["seed"], i, "options")
    if i < SWEEP_TASKS:
        # deterministic sweep: every nested rule pattern in three shapes (inner term survives / result used twice / plain)
        nested = [t for t in B.BAIT if any(a[0] == "op" for a in t[2])]
        per = (len(nested) + SWEEP_TASKS - 1) // SWEEP_TASKS
        blocks = []
        for t in nested[i * per:(i + 1) * per]:
            for shape in ("keepinner", "twice", "plain", "keepinner-used"):
                g = B.Gen(rw, {"pseudo": False, "bait": 0})
                g.h = 3
                u = g.instantiate(t, 3, 1)
                g.compile(("keepinner", u) if shape.startswith("keepinner") else ("twice", "ADD", u) if shape == "twice" else u)
                if shape == "keepinner-used" and g.h >= 5:
                    g.items.append(("LT", None))          # another instruction reads the inner term
                blocks.append(g.items)
        return {"argv": ["-length", "-solver", "z3"] + (["-push0"] if i % 2 else []), "blocks": [AJ.items_to_text(b, 2) for b in blocks],
                "peers": PEERS, "max_len": 12, "greedy": True}
    flags = ["-length"]
    split = ro.choice(["none", "none", "-storage", "-partition"])
    if split != "none":
        flags.append(split)
    if ro.random() < 0.2:
        flags.append("-no-simplification")
    if ro.random() < 0.3:
        flags.append("-push0")
    if ro.random() < 0.2:
        flags.append("-pop-uninterpreted")
    flags += ["-solver", "z3"]
    return {"argv": flags, "blocks": [AJ.items_to_text(b, 2) for b in gen_blocks(rw, 5)], "peers": PEERS,
            "max_len": 10 if spec["tier"] == "quick" else 14, "greedy": True}


def rule_signature(rules):
    """Sorted set of the rule names that fired (constant evaluation = EVAL, memory rules by kind)."""
    import re
    names = set()
    for r in rules:
        r = str(r)
        if r.startswith("EVAL"):
            names.add("EVAL")
        elif re.match(r"^[A-Z0-9]+\(", r):
            names.add(r)
        elif "useless" in r:
            names.add("store-useless")
        elif ")=" in r or "= (" in r:
            names.add("load=store-forwarding")
        elif "of mload" in r or "of sload" in r:
            names.add("store-of-load")
        else:
            names.add("memory-other")
    return "+".join(sorted(names)) or "no-rules"


def evaluate(op, recs, summ):
    viols = []
    for rec in recs:
        if "exc" in rec:
            continue
        sfs = rec["sfs"]
        summ["evals"] += 1
        rp = {"argv": op["argv"], "block": rec["block_text"], "key": rec["key"], "max_len": op["max_len"]}
        rules = [str(r).split("(")[0] if str(r)[:1].isalpha() else "memory" for r in sfs.get("rules", [])]
        if sfs.get("rules") or any(u.get("storage") for u in sfs["user_instrs"]):
            summ["keys"].append(digest([sfs["user_instrs"], sfs["src_ws"], sfs["tgt_ws"], sfs["init_progr_len"], sfs.get("min_length")]))
        # original_instrs
        if rec["sub_block"] is not None and sfs["original_instrs"].split() != " ".join(rec["sub_block"]).split():
            viols.append({"class": ["original-instrs"], "detail": "%s: original_instrs %r but the sub-block is %r" % (
                rec["key"], sfs["original_instrs"], rec["sub_block"]), "replay": rp})
        b0, bs, ml = sfs["init_progr_len"], sfs["max_sk_sz"], sfs.get("min_length", 0)
        realizing = []          # (length, peak, source, ids)
        for r in rec["results"]:
            if r["ids"] and r["outcome"] in ("optimal", "non_optimal"):
                v = R2.realizes(sfs, r["ids"])
                if v.ok:
                    realizing.append((v.length, v.peak, "solver:" + r["peer"]["kind"], r["ids"]))
        if rec.get("greedy"):
            v = R2.realizes(sfs, rec["greedy"])
            if v.ok:
                realizing.append((v.length, v.peak, "greedy", rec["greedy"]))
                summ["probes"]["greedy_witness"] = summ["probes"].get("greedy_witness", 0) + 1
        r6 = None
        if b0 <= 6:
            r6 = R6.search(sfs, b0, bs)
            if r6["best"]["length"] is not None:
                v = R2.realizes(sfs, r6["witness"])
                if v.ok:
                    realizing.append((v.length, v.peak, "bruteforce", r6["witness"]))
        within = [x for x in realizing if x[0] <= b0 and x[1] <= bs]
        if within:
            summ["probes"]["feasible"] = summ["probes"].get("feasible", 0) + 1
        elif r6 is not None and r6["exhausted"] and r6["best"]["length"] is None:
            # one more exhaustive search without the height bound tells which bound is to blame
            r6b = R6.search(sfs, b0, None)
            which = "max_sk_sz" if r6b["best"]["length"] is not None else "init_progr_len"
            rk = rule_signature(sfs.get("rules", []))
            viols.append({"class": ["infeasible-bounds", which, rk],
                          "detail": "%s: no sequence of length <= %d and height <= %d realizes the specification (brute force exhausted %d states); rules %s | sub-block %s | flags %s" % (
                              rec["key"], b0, bs, r6["states"], sfs.get("rules"), rec["sub_block"], " ".join(op["argv"])), "replay": rp})
        else:
            summ["inconclusive"] += 1
            summ["probes"]["undecided_no_witness"] = summ["probes"].get("undecided_no_witness", 0) + 1
        for L, pk, src, ids in realizing:
            if L < ml:
                viols.append({"class": ["min-length-too-large", src.split(":")[0], "rules" if sfs.get("rules") else "no-rules"],
                              "detail": "%s: min_length=%d (instrs %s, bounds %s) but %s (%s) realizes the specification with %d instructions | sub-block %s | flags %s" % (
                                  rec["key"], ml, sfs.get("min_length_instrs"), sfs.get("min_length_bounds"), " ".join(ids), src, L, rec["sub_block"],
                                  " ".join(op["argv"])), "replay": rp})
                break
        if not summ["samples"] and realizing:
            summ["samples"].append({"sub_block": rec["sub_block"], "init_progr_len": b0, "max_sk_sz": bs, "min_length": ml,
                                    "shortest_seen": min(x[0] for x in realizing)})
    return viols


ENUM_VOCAB = [("PUSH", "0"), ("PUSH", "1"), ("DUP1", None), ("DUP2", None), ("SWAP1", None), ("POP", None), ("ADD", None), ("SUB", None),
              ("MUL", None), ("AND", None), ("ISZERO", None), ("EQ", None), ("LT", None), ("XOR", None), ("NOT", None), ("MSTORE", None),
              ("MLOAD", None), ("SLOAD", None), ("SSTORE", None)]


# (the split instruction reads deep stack positions, so the block's input stack is much deeper than what the sub-block after it touches)
ENUM_PREFIXES = [([("DUP6", None), ("DUP6", None), ("LOG0", None)], []), ([("DUP7", None), ("DUP7", None), ("SSTORE", None)], ["-storage"]),
                 ([("DUP8", None), ("DUP1", None), ("DUP1", None), ("CALLDATACOPY", None)], []),
                 ([("DUP3", None), ("DUP3", None), ("LOG0", None)], ["-pop-uninterpreted"])]


def enum_task(spec, summ):
    """Small-scope sweep: every block of at most three instructions over ENUM_VOCAB that starts with the task's instruction
    (operands come from the input stack), front-end only; bounds judged by the brute-force search alone."""
    k = spec["index"] - SWEEP_TASKS
    if k < len(ENUM_VOCAB):
        first = ENUM_VOCAB[k]
        blocks = [[first]] + [[first, a] for a in ENUM_VOCAB] + [[first, a, b] for a in ENUM_VOCAB for b in ENUM_VOCAB]
        flags = ["-length"] + [[], ["-push0"], ["-pop-uninterpreted"]][spec["index"] % 3]
    else:
        # sub-blocks that *follow a split instruction*: they start from a stack whose bottom they may never touch
        prefix, flags = ENUM_PREFIXES[k - len(ENUM_VOCAB)]
        blocks = [prefix + [a] for a in ENUM_VOCAB] + [prefix + [a, b] for a in ENUM_VOCAB for b in ENUM_VOCAB]
        flags = ["-length"] + flags
    op = {"argv": flags, "blocks": [AJ.items_to_text(b, 2) for b in blocks]}
    st, specs = procs.run_sut(pipe.run_specs, op, cpu_s=600)
    if st != "ok":
        summ["inconclusive"] = 1
        return []
    recs = []
    for text, r in zip(op["blocks"], specs):
        if "exc" in r:
            continue
        for key, sfs in r["sfs"].items():
            recs.append({"sfs": sfs, "results": [], "greedy": None, "sub_block": None, "key": key, "block_text": text})
    summ["probes"]["enumerated_blocks"] = len(recs)
    return evaluate({"argv": flags + ["-solver", "z3"], "max_len": 6}, recs, summ)


def task(spec):
    summ = {"evals": 0, "keys": [], "probes": {}, "faults": {}, "sim_s": 0.0, "samples": [], "harness": 0, "inconclusive": 0}
    if SWEEP_TASKS <= spec["index"] < SWEEP_TASKS + len(ENUM_VOCAB) + len(ENUM_PREFIXES):
        viols = enum_task(spec, summ)
        seen = set()
        out = []
        for v in viols:
            if tuple(v["class"]) not in seen:
                seen.add(tuple(v["class"]))
                out.append(v)
        summ["violations"] = out[:3]
        return summ
    op = build(spec)
    st, recs = procs.run_sut(pipe.run_solve, op, cpu_s=400)
    if st != "ok":
        summ["inconclusive"] = 1
        return dict(summ, violations=[])
    viols = evaluate(op, recs, summ)
    seen = set()
    out = []
    for v in viols:
        if tuple(v["class"]) not in seen:
            seen.add(tuple(v["class"]))
            out.append(v)
    summ["violations"] = out[:3]
    return summ


def replay(rp):
    op = {"argv": rp["argv"], "blocks": [rp["block"]], "peers": PEERS, "max_len": rp["max_len"], "greedy": True}
    st, recs = procs.run_sut(pipe.run_solve, op, cpu_s=400)
    if st != "ok":
        return None
    summ = {"evals": 0, "keys": [], "probes": {}, "samples": [], "inconclusive": 0}
    v = evaluate(op, recs, summ)
    return v[0] if v else None
