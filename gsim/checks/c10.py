"""C10 -- every block is processed to completion; a failure costs at most that block.

Two separate configurations (so that no relaxation hides an ordinary bug):
  * fault-free: nasty-constant bait through the whole pipeline under CPU/address-space budgets
    (CPU time, not wall time): no exception leaves execute_gasol, the output exists, limits not hit;
  * fault twin: the same run again with analysis of chosen blocks made impossible -- persistently
    (evm2rbr_compiler raises every time it is asked about that block), transiently (only the n-th
    call), or by an I/O error placed on an intermediate-file operation of that block's analysis.
    Oracle = the fault-free twin: output exists, faulted blocks are unchanged from the input (for
    transient faults: unchanged or equal to the twin's), every other block equals the twin's.
"""
import json

from gsim.checks import common as C
from gsim.core.prng import stream, digest
from gsim.ref import asmjson as AJ

ID = "C10"
LEVEL = "fault_enumeration"
RULE = ("one evaluation = one simulated run of the real CLI (fault-free under CPU/memory budget) or one faulted twin run compared "
        "block by block with its fault-free twin; fault kinds: persistent analysis failure of a block, failure of the n-th analysis "
        "call, EIO/ENOSPC/EACCES/ENOENT on the .rbr / specification-json / disasm writes and directory operations of one block's "
        "analysis; non-trivial = a fault actually fired inside a run that had optimised at least one other block, or a fault-free "
        "run in which at least one block's analysis raised and was contained; distinct = digest of (input, option set, fault plan)")
COMPONENTS = {"real": ["gasol_asm.execute_gasol and below", "greedy back-end", "z3 4.8.12 peer (part of the runs)"],
              "stub": ["SimFS (fault injection point)", "SimClock", "OptiMathSAT reply format"]}
ASSUMPTIONS = ["budget: RLIMIT_CPU 20 s + 1 s per 20 instructions, RLIMIT_AS 4 GiB (about 1000x the normal cost)",
               "solver-process failures and I/O errors on the solver's input file are explored and counted but are not verdicts",
               "for each base run the fault positions (which block, which file operation, which call) are sampled, the fault kinds are enumerated"]

IO_TARGETS = [("open_w", ".rbr"), ("open_w", "_input.json"), ("open_w", ".disasm"), ("listdir", "/sim/tmp"),
              ("close_w", ".rbr"), ("close_w", "_input.json"), ("mkdir", "gasol_")]
ERRNOS = ["EIO", "ENOSPC", "EACCES", "ENOENT"]


def plan(tier, seed, batch):
    if tier == "quick":
        if batch > 0:
            return []
        n = 260
    else:
        n = 1000
    return [{"index": batch * 100000 + i, "seed": seed, "tier": tier} for i in range(n)]


def block_names(op):
    """Names the tool gives to the blocks of the input (our own derivation of its naming rule)."""
    names = []
    if op["fmt"] == "bl":
        text = op["files"][op["argv"][0]]
        n = 0
        for line in text.split("\n"):
            n += len(AJ.cut_blocks(C.parse_bl_input(line)))
        return ["isolated_block_%d" % i for i in range(n)]
    doc = json.loads(op["files"][op["argv"][0]])
    cons = [("contract", doc)] if op["fmt"] == "single" else [(k, (v or {}).get("asm")) for k, v in doc["contracts"].items()]
    for k, asm in cons:
        if not asm:
            continue
        short = k.split("/")[-1].split(":")[-1]
        # same enumeration order as AJ.code_sections (which pairs_of uses); nested sub-assemblies are kept verbatim by the
        # tool and have no block names: placeholders keep the indices aligned
        for path, code in AJ.code_sections(asm):
            nb = len(AJ.cut_blocks(code))
            parts = path.split("/")
            if path == "/.code":
                names += ["%s_initial_block_%d" % (short, i) for i in range(nb)]
            elif len(parts) == 4:          # /.data/<k>/.code
                names += ["%s_run_code_of_%s_block_%d" % (short, parts[2], i) for i in range(nb)]
            else:
                names += ["<nested:%s#%d>" % (path, i) for i in range(nb)]
    return names


MAG_TASKS = 14
MAG_OPS = ["SHL", "SHR", "SAR", "EXP", "MUL", "SIGNEXTEND", "BYTE", "DIV", "SDIV", "MOD", "SMOD", "ADDMOD", "MULMOD", "SUB"]
MAG_EXP = [9, 16, 20, 24, 27, 28, 30, 31, 32, 33, 35, 38, 40, 48, 62, 63, 64, 65, 128, 255]


def magnitude_op(spec):
    """Deterministic sweep: one opcode per task, constant operands 2^k (+-1) over the whole range of k in either
    position against a small non-zero constant.  Three-instruction blocks under a budget that is tight enough to
    notice work proportional to the *value* of a constant (an integer of 2^k bits is 2^(k-3) bytes)."""
    i = spec["index"]
    r = stream(spec["seed"], i, "magnitude")
    name = MAG_OPS[i % len(MAG_OPS)]
    blocks = []
    for k in MAG_EXP:
        big = (1 << k) + r.choice([0, 0, -1, 1])
        other = r.choice([1, 2, 3, 0xff, (1 << 256) - 1, 1 << 255])
        for a, b in ((big, other), (other, big)):
            items = [("PUSH", "%x" % b), ("PUSH", "%x" % a)]
            if name in ("ADDMOD", "MULMOD"):
                items = [("PUSH", "%x" % r.choice([other, big, 7]))] + items
            blocks.append(items + [(name, None), ("PUSH", "%x" % (len(blocks) + 1)), ("JUMP", None)])
    flags = [[], ["-size"], ["-length"], ["-storage"]][(i // len(MAG_OPS)) % 4] + ["-greedy"]
    op = C.bl_op(blocks, flags)
    op["fmt"] = "bl"
    op["desc"] = {"split": "none", "crit": "gas", "rules": True, "push0": True, "backend": "-greedy"}
    # memory: the peak of the bytes allocated during the run is measured (tracemalloc: deterministic) and must stay below
    # MAG_MEM; the address space may grow by 128 MiB over what the worker maps, so that an allocation proportional to a
    # constant fails fast instead of being served.  CPU: 120 s for ~40 three-instruction blocks (normal: < 1 s)
    op["cpu_s"] = 120
    op["as_extra"] = 128 << 20
    op["trace_mem"] = True
    return op


MAG_MEM = 32 << 20


RULE_SWEEP_FIRST = MAG_TASKS


def build_ops(spec):
    i = spec["index"]
    if i < MAG_TASKS:
        op = magnitude_op(spec)
        return op, None, block_names(op)
    from gsim.checks import c01
    if RULE_SWEEP_FIRST <= i < RULE_SWEEP_FIRST + c01.SWEEP_TASKS:
        # the deterministic rule sweep of C01 (every rule pattern in five shapes), here under the time and memory budget:
        # a rule that never reaches its fixpoint shows up as a budget overrun
        bl = c01.rule_sweep_blocks(i - RULE_SWEEP_FIRST)
        if bl:
            flags = [[], ["-size"], ["-storage"], ["-partition"]][i % 4] + ["-greedy"]
            op = C.bl_op(bl, flags)
            op["fmt"] = "bl"
            op["desc"] = {"split": "none", "crit": "gas", "rules": True, "push0": True, "backend": "-greedy"}
            return op, None, block_names(op)
    rf = stream(spec["seed"], i, "fs")
    backend = "-greedy" if i % 5 else "solver"
    op = C.build_pipe_op(spec, backend=backend, profile="nasty" if i % 2 == 0 else None,
                         peer_kinds=["optimal", "optimal", "no_model", "no_model_bounds"])
    if i % 13 == 7 and backend == "-greedy":
        # deep-stack bait: blocks that touch 17..20 stack values (the greedy back-end must give up cleanly where
        # no DUP/SWAP reaches, never emit an instruction that does not exist)
        deep = []
        for _ in range(rf.choice([1, 2, 3])):
            deep += rf.choice([[("SWAP1", None), ("POP", None), ("SWAP16", None)], [("SWAP16", None), ("POP", None), ("SWAP16", None)],
                               [("DUP16", None), ("SWAP16", None), ("POP", None), ("POP", None), ("DUP16", None)],
                               [("SWAP15", None), ("SWAP1", None), ("POP", None), ("SWAP16", None), ("SWAP2", None)],
                               [("POP", None), ("POP", None), ("DUP16", None), ("SWAP16", None)]])
        flags = [a for a in op["argv"][1:] if a not in ("-bl", "-single-json")]
        desc = op["desc"]
        other = C.parse_bl_input("PUSH1 0x1 DUP2 ADD PUSH1 0x0 MSTORE PUSH1 0x5 JUMP")
        op = C.bl_op([other, deep + [("PUSH", "7"), ("JUMP", None)], other], flags)
        op["desc"] = desc
        op["fmt"] = "bl"
    if i % 13 == 5 and backend == "-greedy":
        # sharing bait: a chain of (DUP1, op) pairs builds a term DAG of linear size and exponential tree size
        k = rf.choice([6, 9, 11]) if spec["tier"] == "quick" else rf.choice([8, 11, 16, 22])
        chain = []
        for _ in range(k):
            chain += [("DUP1", None), (rf.choice(["ADD", "ADD", "MUL", "XOR"]), None)]
        flags = [a for a in op["argv"][1:] if a not in ("-bl", "-single-json")]
        desc = op["desc"]
        op = C.bl_op([[("CALLVALUE", None)] + chain], flags)
        op["desc"] = desc
        op["fmt"] = "bl"
    if op["fmt"] == "asm" and "-log" not in op["argv"]:
        op["argv"].append("-log")          # the log of the faulted run is replayed afterwards (under the same persistent fault)
    names = block_names(op)
    twin = None
    if i % 3 != 0 and names:
        twin = json.loads(json.dumps(op))
        kind = rf.choice(["persistent", "persistent", "nth", "io", "io"])
        cand = [k for k, nm in enumerate(names) if not nm.startswith("<nested")]
        victim_idx = rf.choice(cand)
        victim = names[victim_idx]
        fault = {"kind": kind, "victim": victim, "victim_idx": victim_idx}
        if kind == "persistent":
            twin["buggify"] = {"fail_blocks": [victim]}
        elif kind == "nth":
            n = rf.randrange(1, 3 * len(names) + 1)
            twin["buggify"] = {"fail_nth": n}
            fault["n"] = n
        else:
            k, sub = rf.choice(IO_TARGETS)
            en = rf.choice(ERRNOS)
            nth = rf.choice([0, 1, 1, 2, 3])
            path = ("/" + victim + sub) if sub.startswith(".") else (("/" + victim + "_") if sub == "_input.json" else sub)
            if sub in ("/sim/tmp", "gasol_"):
                nth = rf.randrange(1, 2 * len(names) + 1)
            twin["fs_faults"] = [{"kind": k, "path": path, "nth": nth, "errno": en}]
            fault.update({"io": k, "path": path, "nth": nth, "errno": en})
        twin["fault"] = fault
    return op, twin, names


def input_shape(op):
    """Coarse shape of the input, used to attribute a budget overrun: 'dup-chain' = a run of >= 12 consecutive (DUPk, binary op)
    pairs, i.e. a term DAG with exponential tree size (recorded finding C10-dup-chain)."""
    import re
    text = " ".join(str(v) for v in op["files"].values())
    if op.get("fmt") != "bl":
        names = re.findall(r'"name": "([A-Z0-9]+)"', text)
    else:
        names = [t for t in text.split() if not t.startswith("0x")]
    best = run = 0
    i = 0
    while i + 1 < len(names):
        if re.fullmatch(r"DUP\d+", names[i]) and names[i + 1] in ("ADD", "MUL", "AND", "OR", "XOR", "SUB", "DIV", "EXP", "LT", "GT", "EQ", "SHL", "SHR"):
            run += 1
            best = max(best, run)
            i += 2
        else:
            run = 0
            i += 1
    return "dup-chain" if best >= 12 else "other"


def exc_class(res):
    e = res["exc"]
    return [e["type"], str(e["frame"])]


def check(spec):
    op, twin, names = build_ops(spec)
    spec = dict(spec)
    spec.setdefault("index", 0)
    summ = {"evals": 0, "keys": [], "probes": {}, "faults": {}, "sim_s": 0.0, "samples": [], "harness": 0, "inconclusive": 0}
    viols = []
    # the fault-free run is forked: RLIMIT_AS / RLIMIT_CPU need a process boundary
    st, res = C.run_child(op, fork=True)
    summ["evals"] += 1
    rp = {"op": op, "twin": twin}
    if op.get("as_extra"):
        summ["probes"]["magnitude_sweep_runs"] = 1
    if st in ("cpu", "mem"):
        return summ, [{"class": ["limit", st, "magnitude-sweep" if op.get("as_extra") else input_shape(op), op["desc"]["backend"]], "detail": "fault-free run hit the %s budget | argv %s | input %s" % (
            st, " ".join(op["argv"][1:]), list(op["files"].values())[0][:400]), "replay": rp}]
    if st != "ok":
        summ["harness"] += 1
        return summ, []
    summ["sim_s"] += res["sim_time"]
    if res["exc"] is not None:
        return summ, [{"class": ["raises"] + exc_class(res), "detail": "fault-free run raised %s: %s | argv %s | input %s" % (
            res["exc"]["type"], res["exc"]["msg"], " ".join(op["argv"][1:]), list(op["files"].values())[0][:400]), "replay": rp}]
    if res["exit"] not in (None, 0):
        return summ, [{"class": ["exit", str(res["exit"])], "detail": "exit status %r" % res["exit"], "replay": rp}]
    if op.get("trace_mem"):
        summ["probes"]["magnitude_sweep_peak_kib_sum"] = res.get("mem_peak", 0) >> 10
        if res.get("mem_peak", 0) > MAG_MEM:
            return summ, [{"class": ["limit", "mem", "magnitude-sweep", op["desc"]["backend"]],
                           "detail": "peak of %d MiB allocated for %d three-instruction blocks (budget %d MiB) | argv %s | input %s" % (
                               res["mem_peak"] >> 20, len(names), MAG_MEM >> 20, " ".join(op["argv"][1:]), list(op["files"].values())[0][:300]),
                           "replay": rp}]
    if "-backend" not in op["argv"] and C.output_path(op) not in res["files"]:
        return summ, [{"class": ["no-output"], "detail": "no output file | argv %s" % " ".join(op["argv"][1:]), "replay": rp}]
    contained = res["stdout"].count("Comparison failed, so initial block is kept")
    if contained:
        summ["probes"]["contained_analysis_failures"] = contained
        summ["keys"].append(digest([op["files"], op["argv"]]))
    # ---- exploration only (never a verdict): a broken solver installation --------------------------------
    if op["desc"]["backend"] != "-greedy" and spec["index"] % 2 == 0:
        kind = ["dead", "truncated", "garbage", "stale"][(spec["index"] // 2) % 4]
        bop = json.loads(json.dumps(op))
        bop["peer_plan"] = [{"kind": kind, "at": 0.4}]
        stb, resb = C.run_child(bop)
        summ["faults"]["broken_solver_" + kind] = summ["faults"].get("broken_solver_" + kind, 0) + 1
        outcome = "limit" if stb != "ok" else ("raised_" + resb["exc"]["type"]) if resb["exc"] else \
            ("output_written" if C.output_path(bop) in resb["files"] else "no_output")
        summ["probes"]["broken_solver_%s_%s" % (kind, outcome)] = summ["probes"].get("broken_solver_%s_%s" % (kind, outcome), 0) + 1
    if twin is None:
        return summ, []
    # ---- faulted twin ---------------------------------------------------------------------
    st2, res2 = C.run_child(twin)
    summ["evals"] += 1
    f = twin["fault"]
    tag = f["kind"] + (":" + f["io"] + ":" + f["errno"] if f["kind"] == "io" else "")
    if st2 in ("cpu", "mem"):
        return summ, [{"class": ["limit-under-fault", st2, f["kind"]], "detail": "faulted run hit the %s budget" % st2, "replay": rp}]
    if st2 != "ok":
        summ["harness"] += 1
        return summ, []
    if any("smt_encoding" in k for _, _, k, _ in res2["fired"]):
        # the placed fault landed on the solver's input file: explored, counted, not a verdict of this check
        summ["probes"]["solver_stage_io_fault"] = 1
        summ["probes"]["solver_stage_io_fault_raised"] = 1 if res2["exc"] is not None else 0
        return summ, []
    fired = len(res2["fired"]) + len(res2["records"].get("buggify_fired", []))
    if not fired:
        summ["probes"]["fault_not_reached"] = 1
        return summ, []
    summ["faults"][tag] = summ["faults"].get(tag, 0) + fired
    summ["sim_s"] += res2["sim_time"]
    if res2["exc"] is not None:
        return summ, [{"class": ["raises-under-fault", f["kind"]] + exc_class(res2) + ([f["io"]] if f["kind"] == "io" else []),
                       "detail": "run with %s raised %s: %s | argv %s" % (json.dumps(f), res2["exc"]["type"], res2["exc"]["msg"],
                                                                        " ".join(op["argv"][1:])), "replay": rp}]
    if C.output_path(op) not in res2["files"]:
        return summ, [{"class": ["no-output-under-fault", f["kind"]], "detail": "no output with %s" % json.dumps(f), "replay": rp}]
    # bounded liveness: progress counted in simulator events
    if res2["seq"] > 3 * res["seq"] + 2000:
        viols.append({"class": ["liveness", f["kind"]], "detail": "faulted run needed %d seam events, twin %d" % (res2["seq"], res["seq"]),
                      "replay": rp})
    try:
        p_free = C.pairs_of(op, res)
        p_fault = C.pairs_of(twin, res2)
    except ValueError as e:
        return summ, [{"class": ["skeleton-under-fault", f["kind"]], "detail": str(e), "replay": rp}]
    changed_free = sum(1 for _, a, b in p_free if AJ.canon_items(a) != AJ.canon_items(b))
    if changed_free:
        summ["keys"].append(digest([op["files"], op["argv"], f]))
    if len(p_free) != len(p_fault):
        return summ, [{"class": ["skeleton-under-fault", f["kind"]], "detail": "block count %d vs %d" % (len(p_free), len(p_fault)), "replay": rp}]
    # which emitted blocks may legitimately differ from the twin's
    persistent = f["kind"] == "persistent" or (f["kind"] == "io" and f["nth"] == 0 and f["path"].startswith("/" + f["victim"]))
    victim_pos = block_position(op, f["victim_idx"], p_free)
    for idx, ((path, a, b0), (_, _, b1)) in enumerate(zip(p_free, p_fault)):
        same_as_twin = AJ.canon_items(b0) == AJ.canon_items(b1)
        unchanged = AJ.canon_items(a) == AJ.canon_items(b1)
        if f["kind"] in ("persistent",) or (f["kind"] == "io" and f["path"].startswith("/" + f["victim"])):
            if idx == victim_pos:
                ok = unchanged if persistent else (unchanged or same_as_twin)
                why = "faulted block must be emitted unchanged"
            else:
                ok = same_as_twin
                why = "collateral: a block other than the faulted one differs from the fault-free run"
        else:
            # n-th call / directory-level faults: we do not know which block they hit; every block must be
            # either unchanged or the twin's, and at most the blocks whose analysis was running may be unchanged
            ok = unchanged or same_as_twin
            why = "block is neither the input block nor the fault-free result"
        if not ok:
            viols.append({"class": ["collateral" if idx != victim_pos else "victim-changed", f["kind"]] + ([f["io"]] if f["kind"] == "io" else []),
                          "detail": "%s (%s): %s | in: %s | twin: %s | faulted: %s | fault %s | argv %s" % (
                              path, idx, why, AJ.items_to_text(a)[:300], AJ.items_to_text(b0)[:300], AJ.items_to_text(b1)[:300],
                              json.dumps(f), " ".join(op["argv"][1:])), "replay": rp})
            break
    if not viols and "-log" in twin["argv"] and f["kind"] == "persistent":
        # second step of the history: replaying the log written by the faulted run, the block still being impossible to analyse
        from gsim.checks import c11
        log = res2["files"].get(C.log_path(twin))
        if log is not None:
            files = dict(twin["files"])
            files[C.log_path(twin)] = log.decode()
            rop = c11.replay_op(twin, files)
            rop["buggify"] = twin.get("buggify", {})
            st3, res3 = C.run_child(rop)
            summ["evals"] += 1
            summ["faults"]["replay_under_persistent_fault"] = summ["faults"].get("replay_under_persistent_fault", 0) + 1
            if st3 in ("cpu", "mem"):
                viols.append({"class": ["limit-under-fault", st3, "replay"], "detail": "replay of the faulted run's log hit the %s budget" % st3, "replay": rp})
            elif st3 == "ok":
                out3 = res3["files"].get(C.output_path(rop))
                if res3["exc"] is not None:
                    viols.append({"class": ["raises-under-fault", "replay"] + exc_class(res3),
                                  "detail": "replay of the log of the run with %s raised %s: %s | argv %s" % (
                                      json.dumps(f), res3["exc"]["type"], res3["exc"]["msg"], " ".join(rop["argv"][1:])), "replay": rp})
                elif out3 is None:
                    viols.append({"class": ["no-output-under-fault", "replay"], "detail": "replay with %s wrote no output" % json.dumps(f), "replay": rp})
                elif out3 != res2["files"].get(C.output_path(twin)):
                    viols.append({"class": ["collateral", "replay"], "detail": "replay of the faulted run's log differs from the faulted run's output | fault %s | argv %s" % (
                        json.dumps(f), " ".join(rop["argv"][1:])), "replay": rp})
    if not summ["samples"]:
        summ["samples"].append({"argv": op["argv"][1:], "fault": f, "blocks": len(p_free), "changed_in_twin": changed_free})
    return summ, viols


def block_position(op, victim_idx, pairs):
    """block_names() and pairs_of() enumerate blocks in the same order."""
    return victim_idx


def task(spec):
    summ, viols = check(spec)
    summ["violations"] = viols[:2]
    return summ


def replay(rp):
    # explicit ops: rebuild nothing
    spec = {"_explicit": rp}
    global build_ops
    saved = build_ops
    try:
        build_ops = lambda s: (rp["op"], rp["twin"], block_names(rp["op"]))
        _, viols = check({"index": 0, "seed": 0})
    finally:
        build_ops = saved
    return viols[0] if viols else None
