"""C07 -- the Max-SMT problem keeps an optimal program and prices it correctly.

Weakest fit of the claimed set (see DESIGN §5): what simulation contributes is the peer that interprets
the problem text, a seeded swarm over the encoder configurations and an executable reference model (R6).
Per small instance S (init_progr_len <= 6):
 (a) R6 (brute force) finds a realizing sequence within the bound => the hard constraints must be satisfiable
     under every sampled option set;
 (b) the R4 cost of the decoded optimum is identical across option sets that differ only in bounds / ordering /
     pruning flags, and equals R6's true minimum for the chosen criterion;
 (c) over the models sampled for the instance, (weight of violated soft constraints) - (R4 cost of the decoded
     sequence) is one constant.
Unfinished optimisations (rlimit hit) are counted as inconclusive, never a verdict.
"""
import re

from gsim.core import pipe, procs
from gsim.core.prng import stream, digest
from gsim.ref import asmjson as AJ
from gsim.ref import cost as R4
from gsim.ref import smtlib
from gsim.ref import symstack as R2
from gsim.ref import synth as R6
from gsim.work import blocks as B

ID = "C07"
LEVEL = "exploration"
RULE = ("one evaluation = one (small specification, encoder option set) optimised by the real z3 peer and compared with the brute-force "
        "reference synthesiser R6 (satisfiability with a witness in hand, optimum cost, cross-configuration agreement) plus one per "
        "sampled model for the soft-constraint pricing identity; non-trivial = R6 found a realizing sequence strictly cheaper than "
        "the instance's length bound allows trivially, i.e. the optimum differs from the original length; distinct = digest of "
        "(specification, option set)")
COMPONENTS = {"real": ["front-end", "smt_encoding: bounds, ordering, soft constraints, pruning constraints, serializer, model reader",
                       "z3 4.8.12 (optimising)"], "stub": ["SimFS"]}
ASSUMPTIONS = ["instances with init_progr_len <= 6 (R6 exhausts the space; larger ones are not judged)", "R4 context-free per-instruction costs "
               "(every SLOAD cold) are the reference prices: the same static approximation the encoder's weights are built from",
               "sampling over option sets (3-4 per instance) and instances; no fault or schedule is involved"]

NEUTRAL = ["-order-bounds", "-order-conflicts", "-at-most", "-pushed-once", "-no-output-before-pop", "-direct-inequalities"]


def plan(tier, seed, batch):
    if tier == "quick":
        if batch > 0:
            return []
        n = 110
    else:
        n = 500
    return [{"index": batch * 100000 + i, "seed": seed, "tier": tier} for i in range(n)]


def seq_cost(sfs, ids, crit, size_cap=None, push0=True):
    byid = {u["id"]: u for u in sfs["user_instrs"]}
    g = s = n = 0
    for i in ids:
        if i == "NOP":
            continue
        n += 1
        if i in byid:
            cg, cs = R6._instr_cost(byid[i], push0)
        elif i == "POP":
            cg, cs = 2, 1
        else:
            cg, cs = 3, 1
        g += cg
        s += cs if size_cap is None else min(cs, size_cap)
    return {"gas": g, "size": s, "length": n}[crit]


def eval_soft(smt2, ids, theta, first_pos):
    """Sum of the weights of the soft constraints violated by the assignment t_j := theta(ids[j])."""
    inv = {v: k for k, v in (theta or {}).items()}
    cmds = smtlib.parse(smt2)
    asg = {}
    for j, i in enumerate(ids):
        asg["t_%d" % (j + first_pos)] = inv.get(i)
    total = 0

    def val(t):
        if isinstance(t, str):
            if t in asg:
                return asg[t]
            if t.startswith("theta_"):
                return t[6:]
            if t.lstrip("-").isdigit():
                return t
            raise KeyError(t)
        h = t[0]
        if h == "=":
            return str(val(t[1])) == str(val(t[2]))
        if h == "not":
            return not val(t[1])
        if h == "or":
            return any(val(x) for x in t[1:])
        if h == "and":
            return all(val(x) for x in t[1:])
        if h in ("<", "<=", ">", ">="):
            a, b = int(val(t[1])), int(val(t[2]))
            return {"<": a < b, "<=": a <= b, ">": a > b, ">=": a >= b}[h]
        raise KeyError(h)
    for c in cmds:
        if isinstance(c, list) and c and c[0] == "assert-soft":
            w = int(c[c.index(":weight") + 1])
            if not val(c[1]):
                total += w
    return total


def recompute_candidates(sfs, p0):
    """Realizing sequences that execute some value-producing instruction more than once (found by making that
    instruction free for the brute-force search): the programs on which a wrong weight of that instruction shows."""
    out = []
    b0 = sfs["init_progr_len"]
    for u in sfs["user_instrs"]:
        if u.get("storage") or not u["outpt_sk"]:
            continue
        r = R6.search(sfs, b0, sfs["max_sk_sz"], push0=p0, cost_override={u["id"]: (0, 0)}, max_states=60000)
        w = r.get("witness_gas")
        if w and w.count(u["id"]) >= 2 and w not in out:
            out.append(w)
    return out[:3]


def pinned_is_model(smt2, ids, theta):
    """Do the hard constraints of the emitted problem admit the program t_j := ids[j]?  (real z3, soft part removed)"""
    from gsim.core import simsolver
    inv = {v: k for k, v in theta.items()}
    uf = "theta_" in smt2
    pins = []
    for j, i in enumerate(ids):
        if i not in inv:
            return None
        pins.append("(assert (= t_%d %s))" % (j, ("theta_" + inv[i]) if uf and ("theta_" + inv[i]) in smt2 else inv[i]))
    lines = [l for l in simsolver.strip_soft(smt2).split("\n") if not l.startswith("(get-") and not l.startswith("(check-sat") and not l.startswith("(exit")]
    text = "\n".join(lines + pins + ["(check-sat)"])
    reply = simsolver.z3_run(text, rlimit=20000000)
    head = reply.strip().split("\n", 1)[0].strip()
    return True if head == "sat" else False if head == "unsat" else None


def gen_small(rw):
    r = rw.random()
    if r < 0.25:
        # dependency bait: a load whose result is an operand of a later store, with another store of the same space in
        # between (the load is reached both through an operand chain and through an ordering tuple)
        sp = rw.choice(["S", "M"])
        ld, st = sp + "LOAD", sp + "STORE"
        env = lambda: (rw.choice(["CALLVALUE", "CALLER", "ADDRESS", "NUMBER"]), None)
        mid = [env(), env(), (st, None)]
        tail = rw.choice([[(st, None)], [("SWAP1", None), (st, None)], [("DUP1", None), (st, None)]])
        pad = [("SWAP1", None), ("SWAP1", None)] if rw.random() < 0.4 else []
        return [(ld, None)] + mid + pad + tail
    if r < 0.4:
        # reuse bait: an expensive value used twice (DUP is cheap, recomputing is not: the weights must say so)
        exp = rw.choice([[("SLOAD", None)], [("DUP1", None), ("BALANCE", None)], [("PUSH", "20"), ("SWAP1", None), ("KECCAK256", None)],
                         [("EXTCODESIZE", None)], [("DUP2", None), ("EXP", None)], [("BLOCKHASH", None)], [("MLOAD", None)]])
        use = rw.choice([[("DUP1", None), ("ADD", None)], [("DUP1", None), ("SWAP2", None), ("POP", None)], [("DUP1", None), ("DUP3", None), ("LT", None)],
                         [("DUP1", None)], [("DUP1", None), ("MUL", None)]])
        return exp + use
    if r < 0.5:
        # ternary bait: a three-operand instruction whose first, second or third operand is computed right before it and moved
        # into place with one SWAP; the block needs its whole length bound, so a position window that is one too narrow is unsat
        comp = rw.choice([[("DUP1", None), ("MLOAD", None)], [("DUP2", None), ("DUP2", None), ("ADD", None)], [("CALLER", None)],
                          [("DUP1", None), ("ISZERO", None)], [("DUP3", None), ("SLOAD", None)], [("PUSH", "7")]])
        place = rw.choice([[], [("SWAP1", None)], [("SWAP2", None)], [("SWAP2", None)]])
        return comp + place + [(rw.choice(["ADDMOD", "MULMOD"]), None)] + rw.choice([[], [], [("SWAP1", None)]])
    if r < 0.7:
        # recompute bait: the block itself computes an expensive value twice, so the bound leaves room both for the program
        # that duplicates it and for the one that recomputes it -- two models that differ in how often the instruction runs
        if rw.random() < 0.6:
            op1 = rw.choice(["SLOAD", "BALANCE", "EXTCODESIZE", "BLOCKHASH", "MLOAD", "CALLDATALOAD", "EXTCODEHASH", "ISZERO", "NOT"])
            body = [("DUP1", None), (op1, None), ("SWAP1", None), (op1, None)]
        else:
            op2 = rw.choice(["MUL", "EXP", "DIV", "SUB", "MOD", "ADD", "SDIV", "SIGNEXTEND", "LT"])
            body = [("DUP2", None), ("DUP2", None), (op2, None), ("SWAP2", None), ("SWAP1", None), (op2, None)]
        return body + rw.choice([[("ADD", None)], [], [("LT", None)], [("SWAP1", None)]])
    L = rw.choice([2, 3, 3, 4, 4, 5])
    return B.gen_block(rw, length=L, depth=rw.choice([0, 1, 2, 2, 3]), pseudo=False, ending=False, splits=False,
                       profile=rw.choice(["plain", "stack", "stack", "rules", "memory"]))


def task(spec):
    i = spec["index"]
    rw = stream(spec["seed"], i, "workload")
    ro = stream(spec["seed"], i, "options")
    crit_flag = ro.choice([[], ["-size"], ["-length"]])
    crit = {"": "gas", "-size": "size", "-length": "length"}["".join(crit_flag)]
    base = crit_flag + (["-push0"] if ro.random() < 0.3 else []) + (["-no-simplification"] if ro.random() < 0.25 else [])
    term = ro.choice([[], [], ["-term-encoding", "int"], ["-term-encoding", "stack_vars"], ["-term-encoding", "uninterpreted_int"]])
    base = base + ["-solver", "z3"] + term
    variants = [[]]
    for _ in range(2 if spec["tier"] == "quick" else 3):
        variants.append(sorted(set(f for f in NEUTRAL if ro.random() < 0.4)))
    blocks = [AJ.items_to_text(gen_small(rw), 0) for _ in range(5)]
    summ = {"evals": 0, "keys": [], "probes": {}, "faults": {}, "sim_s": 0.0, "samples": [], "harness": 0, "inconclusive": 0}
    viols = judge(base, variants, blocks, crit, summ)
    seen = set()
    out = []
    for v in viols:
        if tuple(v["class"]) not in seen:
            seen.add(tuple(v["class"]))
            out.append(v)
    summ["violations"] = out[:3]
    return summ


def judge(base, variants, blocks, crit, summ):
    """All C07 clauses for a set of blocks under `base` + each variant (explicit data: also the replay entry point)."""
    p0 = "-push0" not in base          # the flag *disables* PUSH0
    peers = [{"kind": "optimal", "rlimit": 40000000}, {"kind": "any_model", "seed": 3}, {"kind": "skewed", "seed": 5, "mode": "maximise"}]
    viols = []
    per_instance = {}
    for vi, var in enumerate(variants):
        op = {"argv": base + var, "blocks": blocks, "peers": peers if vi == 0 else peers[:1], "max_len": 7, "greedy": False}
        st, recs = procs.run_sut(pipe.run_solve, op, cpu_s=400)
        if st != "ok":
            summ["inconclusive"] += 1
            continue
        for rec in recs:
            if "exc" in rec:
                continue
            sfs = rec["sfs"]
            key = (rec["block"], rec["key"])
            inst = per_instance.setdefault(key, {"sfs": sfs, "opt": {}, "r6": None})
            if inst["r6"] is None:
                inst["r6"] = R6.search(sfs, sfs["init_progr_len"], sfs["max_sk_sz"], push0=p0)
            r6 = inst["r6"]
            rp = {"base": base, "variants": variants, "block": rec["block_text"], "crit": crit}
            res0 = rec["results"][0]
            summ["evals"] += 1
            summ["keys"].append(digest([sfs["user_instrs"], sfs["tgt_ws"], sfs["src_ws"], base + var]))
            have_witness = r6["best"]["length"] is not None
            if res0["exc"] is not None:
                summ["probes"]["encoder_raised"] = summ["probes"].get("encoder_raised", 0) + 1
                if have_witness:
                    # no problem text at all for a realizable specification: every optimal program was removed
                    viols.append({"class": ["a:encoder-raises-with-witness", res0["exc"].split(":")[0], str(res0.get("frame")), "+".join(var) or "default"],
                                  "detail": "%s: the encoder raised %s although %s realizes the specification within init_progr_len=%d | flags %s | sub-block %s" % (
                                      rec["key"], res0["exc"], " ".join(r6["witness"]), sfs["init_progr_len"], " ".join(base + var), rec["sub_block"]), "replay": rp})
                else:
                    summ["inconclusive"] += 1
                continue
            if res0["outcome"] == "unsat":
                if have_witness:
                    viols.append({"class": ["a:unsat-with-witness", crit, "+".join(var) or "default"],
                                  "detail": "%s: hard constraints unsat although %s realizes the specification within init_progr_len=%d | flags %s | sub-block %s" % (
                                      rec["key"], " ".join(r6["witness"]), sfs["init_progr_len"], " ".join(base + var), rec["sub_block"]), "replay": rp})
                continue
            if res0["outcome"] != "optimal":
                summ["inconclusive"] += 1
                continue
            v = R2.realizes(sfs, res0["ids"])
            if not v.ok:
                summ["probes"]["optimum_not_realizing(C06)"] = summ["probes"].get("optimum_not_realizing(C06)", 0) + 1
                continue
            c = seq_cost(sfs, res0["ids"], crit, push0=p0)
            inst["opt"]["+".join(var) or "default"] = (c, res0["ids"])
            if r6["exhausted"] and have_witness and r6["best"][crit] is not None and c != r6["best"][crit]:
                cause = "other"
                if crit == "size" and c > r6["best"][crit]:
                    # attribution: is the decoded optimum optimal under byte sizes capped at 5 (synthesis_full_encoding: min(size_cost, 5))?
                    r6c = R6.search(sfs, sfs["init_progr_len"], sfs["max_sk_sz"], size_cap=5, push0=p0)
                    if r6c["exhausted"] and r6c["best"]["size"] == seq_cost(sfs, res0["ids"], "size", size_cap=5, push0=p0):
                        cause = "cap5"
                viols.append({"class": ["b:optimum-differs-from-reference", crit, cause, "worse" if c > r6["best"][crit] else "better?", "+".join(var) or "default"],
                              "detail": "%s: decoded optimum %s costs %d (%s), brute force minimum is %d | flags %s | sub-block %s" % (
                                  rec["key"], " ".join(res0["ids"]), c, crit, r6["best"][crit], " ".join(base + var), rec["sub_block"]), "replay": rp})
            # (c) pricing identity over the sampled models of this instance (default variant only)
            if vi == 0 and rec["smt2"] and rec.get("theta"):
                consts = []
                for r in rec["results"]:
                    if r["ids"] and r["outcome"] in ("optimal", "non_optimal") and R2.realizes(sfs, r["ids"]).ok:
                        try:
                            sv = eval_soft(rec["smt2"], r["ids"], rec["theta"], 0)
                        except (KeyError, ValueError, TypeError):
                            consts = None
                            summ["probes"]["soft_not_evaluable"] = summ["probes"].get("soft_not_evaluable", 0) + 1
                            break
                        summ["evals"] += 1
                        consts.append((sv - seq_cost(sfs, r["ids"], crit, push0=p0), r["ids"]))
                # ... and over programs that repeat an instruction, pinned into the emitted problem (they are models of its
                # hard part exactly when z3 says so): sampled models almost never recompute a value, these always do
                if consts and crit != "length":
                    b0 = sfs["init_progr_len"]
                    for w in recompute_candidates(sfs, p0):
                        ids = list(w) + ["NOP"] * (b0 - len(w))
                        if not R2.realizes(sfs, ids).ok:
                            continue
                        ok = pinned_is_model(rec["smt2"], ids, rec["theta"])
                        summ["probes"]["pinned_" + {True: "model", False: "excluded", None: "unknown"}[ok]] = \
                            summ["probes"].get("pinned_" + {True: "model", False: "excluded", None: "unknown"}[ok], 0) + 1
                        if ok:
                            try:
                                sv = eval_soft(rec["smt2"], ids, rec["theta"], 0)
                            except (KeyError, ValueError, TypeError):
                                continue
                            summ["evals"] += 1
                            consts.append((sv - seq_cost(sfs, ids, crit, push0=p0), ids))
                if consts and len(set(c for c, _ in consts)) > 1:
                    cause = "other"
                    if crit == "size":
                        capped = set(c + seq_cost(sfs, m, "size", push0=p0) - seq_cost(sfs, m, "size", size_cap=5, push0=p0) for c, m in consts)
                        if len(capped) == 1:
                            cause = "cap5"
                    viols.append({"class": ["c:soft-minus-cost-not-constant", crit, cause],
                                  "detail": "%s: soft(M)-cost(M) takes values %s over models %s | flags %s" % (
                                      rec["key"], sorted(set(c for c, _ in consts)), [" ".join(m) for _, m in consts][:3], " ".join(base + var)),
                                  "replay": rp})
    for key, inst in per_instance.items():
        vals = set(c for c, _ in inst["opt"].values())
        if len(vals) > 1:
            viols.append({"class": ["b:cross-configuration", crit], "detail": "%s: optimum cost differs across option sets: %s" % (
                key[1], {k: v[0] for k, v in inst["opt"].items()}), "replay": {"base": base, "variants": variants, "block": blocks[key[0]], "crit": crit}})
        if inst["r6"] and inst["r6"]["best"]["length"] is not None and not summ["samples"]:
            summ["samples"].append({"flags": base, "variants": variants, "block": blocks[key[0]], "r6_best": inst["r6"]["best"],
                                    "optima": {k: v[0] for k, v in inst["opt"].items()}})
    return viols


def replay(rp):
    summ = {"evals": 0, "keys": [], "probes": {}, "faults": {}, "sim_s": 0.0, "samples": [], "harness": 0, "inconclusive": 0}
    viols = judge(rp["base"], rp["variants"], [rp["block"]], rp["crit"], summ)
    return viols[0] if viols else None
