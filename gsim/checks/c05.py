"""C05 -- the built-in equivalence checkers never accept distinguishable blocks.

The checker is the tool's defence against a wrong solver reply or a wrong log, so it is exercised that way:
 * semantic single-edit mutants of a block (operand swap of a non-commutative operation, signed/unsigned and
   shift-kind substitution, constant change, dropped / duplicated / reordered store, wrong DUP/SWAP index,
   dropped POP) are handed to the real compare_asm_block_asm_format; whenever it answers 'equal', the
   reference interpreter R1 must find no distinguishing state (K = 48, states biased by harvested constants);
   mutants R1 cannot distinguish are counted as equivalent mutants, never as violations;
 * a byzantine solver peer: whole-pipeline runs in which SimSolver corrupts the decoded sequence of a correct
   model (swap / copy / rotate of t_j values); emitted blocks must still be R1-equivalent to the input;
 * reflexivity: every block compared with its own copy must be 'equal' and the comparison must not raise;
 * forves adapter: with a fake external checker that answers 'true' to whatever it is shown, the rendered
   file must be, segment by segment, exactly the two instruction sequences; peer faults (false, parsing
   error, garbage, missing binary) must never be reported as 'true'.
"""
import json
import re

from gsim.checks import common as C
from gsim.core import pipe, procs
from gsim.core.prng import stream, digest
from gsim.ref import asmjson as AJ
from gsim.ref import evm
from gsim.work import blocks as B
from gsim.work import corpus
from gsim.work import options as O

ID = "C05"
LEVEL = "fault_enumeration"
RULE = ("one evaluation = one (block, mutant) pair judged by the real checker and, when accepted, by R1 on 48 states; or one reflexive "
        "comparison; or one pipeline run against a reply-corrupting solver peer; or one rendered forves input. For a base block the "
        "single-edit operators are enumerated at every applicable position (capped at 40 mutants per block), base blocks are sampled; "
        "non-trivial = the mutant is stack-legal and R1 distinguishes it from the original (so 'equal' would be wrong); distinct = digest "
        "of (block, mutant, option set)")
COMPONENTS = {"real": ["gasol_asm.compare_asm_block_asm_format, verification/sfs_verify.py, the shared front-end", "verification/forves_verification.py "
                       "(rendering, verdict parsing)", "whole pipeline + z3 4.8.12 for the corrupt-peer runs"],
              "stub": ["forves-checker binary (fake peer that sees only the rendered file)", "SimFS"]}
ASSUMPTIONS = ["R1 on 48 sampled states decides distinguishability (a mutant R1 cannot distinguish is counted as equivalent, never demanded to be rejected)",
               "well-formed input for the never-raises clause = stack-legal blocks over the supported vocabulary"]

SUBST = {"DIV": "SDIV", "SDIV": "DIV", "MOD": "SMOD", "SMOD": "MOD", "LT": "SLT", "SLT": "LT", "GT": "SGT", "SGT": "GT",
         "SHR": "SAR", "SAR": "SHR", "SHL": "SHR", "MSTORE": "MSTORE8", "MSTORE8": "MSTORE", "ADD": "SUB", "SUB": "ADD",
         "AND": "OR", "OR": "XOR", "LT": "GT", "EQ": "XOR", "ISZERO": "NOT", "NOT": "ISZERO", "SLOAD": "MLOAD", "MLOAD": "SLOAD",
         "CALLER": "ORIGIN", "ADDRESS": "CALLER", "CALLVALUE": "CALLDATASIZE", "MUL": "ADD", "EXP": "MUL", "SIGNEXTEND": "BYTE"}
NONCOMM = {"SUB", "DIV", "SDIV", "MOD", "SMOD", "EXP", "LT", "GT", "SLT", "SGT", "SHL", "SHR", "SAR", "BYTE", "SIGNEXTEND", "MSTORE",
           "MSTORE8", "SSTORE", "KECCAK256"}
STORES = {"MSTORE", "MSTORE8", "SSTORE"}


def mutants(items, rng, cap=40):
    """(mutant items, operator) for every applicable single edit; sampled down to `cap`."""
    out = []
    n = len(items)
    for i, (name, value) in enumerate(items):
        if name in SUBST:
            out.append((items[:i] + [(SUBST[name], value)] + items[i + 1:], "subst:%s>%s" % (name, SUBST[name])))
        if name in NONCOMM:
            out.append((items[:i] + [("SWAP1", None)] + items[i:], "operand-swap:" + name))
        if name in ("PUSH #[$]", "PUSH [$]", "PUSH data", "PUSHIMMUTABLE", "PUSH [tag]") and value is not None:
            # another kind of pseudo push with the same operand (all of them share the placeholder opcode 00)
            for other in ("PUSH #[$]", "PUSH [$]", "PUSH data"):
                if other != name:
                    out.append((items[:i] + [(other, value)] + items[i + 1:], "subst:pseudo-kind"))
                    break
        if name == "PUSH":
            v = int(value, 16)
            for nv in (v ^ 1, (v + 32) & evm.M256, 0 if v else 1):
                out.append((items[:i] + [("PUSH", "%x" % nv)] + items[i + 1:], "const-change"))
        m = re.fullmatch(r"(DUP|SWAP)(\d+)", name)
        if m:
            k = int(m.group(2))
            for k2 in (k - 1, k + 1):
                if 1 <= k2 <= 16:
                    out.append((items[:i] + [("%s%d" % (m.group(1), k2), None)] + items[i + 1:], "index:" + m.group(1)))
        if name in STORES:
            out.append((items[:i] + [("POP", None), ("POP", None)] + items[i + 1:], "drop-store:" + name))
            out.append((items[:i] + [("DUP2", None), ("DUP2", None), (name, None)] + items[i:], "dup-store:" + name))
        if name == "POP":
            out.append((items[:i] + items[i + 1:], "drop-pop"))
        # two adjacent stores: exchange them together with their operands (addresses may alias)
        if name in STORES and i + 1 < n and items[i + 1][0] in STORES:
            out.append((items[:i] + [("SWAP2", None), ("SWAP1", None), ("SWAP3", None), ("SWAP1", None), items[i + 1], items[i]] + items[i + 2:],
                        "reorder-stores:%s,%s" % (name, items[i + 1][0])))
        if name in ("MLOAD", "SLOAD") and i + 1 < n and items[i + 1][0] in STORES and items[i + 1][0][0] == name[0]:
            # load then store -> store then load (operands shuffled so that each keeps its own)
            out.append((items[:i] + [("SWAP2", None), ("SWAP1", None), items[i + 1], items[i]] + items[i + 2:], "reorder-load-store:" + name))
    # statement reorder: a hash of memory next to a memory store, operands duplicated from the stack (DUPa DUPb KECCAK256 leaves the
    # hash on top, so the store's DUP indices move by one when the two statements are exchanged)
    def dupk(it):
        m = re.fullmatch(r"DUP(\d+)", it[0])
        return int(m.group(1)) if m else None
    for i in range(n - 5):
        w = items[i:i + 6]
        ks = [dupk(w[0]), dupk(w[1]), dupk(w[3]), dupk(w[4])]
        if None in ks:
            continue
        if w[2][0] == "KECCAK256" and w[5][0] in ("MSTORE", "MSTORE8") and ks[2] >= 2 and ks[3] >= 3:
            out.append((items[:i] + [("DUP%d" % (ks[2] - 1), None), ("DUP%d" % (ks[3] - 1), None), w[5], w[0], w[1], w[2]] + items[i + 6:],
                        "reorder-hash-store:" + w[5][0]))
        if w[5][0] == "KECCAK256" and w[2][0] in ("MSTORE", "MSTORE8") and ks[0] <= 15 and ks[1] <= 15:
            out.append((items[:i] + [w[3], w[4], w[5], ("DUP%d" % (ks[0] + 1), None), ("DUP%d" % (ks[1] + 1), None), w[2]] + items[i + 6:],
                        "reorder-store-hash:" + w[2][0]))
    # reorder two adjacent memory/storage statements: swap the i-th and j-th store opcode kinds where possible
    idx = [i for i, (nm, _) in enumerate(items) if nm in STORES or nm in ("MLOAD", "SLOAD", "KECCAK256")]
    for a, b in zip(idx, idx[1:]):
        if items[a][0] != items[b][0]:
            mm = list(items)
            mm[a], mm[b] = (items[b][0], items[a][1]), (items[a][0], items[b][1])
            out.append((mm, "swap-access-kinds"))
    rng.shuffle(out)
    # the rare statement-level reorderings always survive the sampling
    out.sort(key=lambda x: 0 if x[1].startswith("reorder-") else 1)
    return out[:cap]


def plan(tier, seed, batch):
    if tier == "quick":
        if batch > 0:
            return []
        n = 200
    else:
        n = 900
    return [{"index": batch * 100000 + i, "seed": seed, "tier": tier} for i in range(n)]


def legal(items, need_max):
    try:
        need, _ = evm.stack_need_and_delta(items)
    except evm.Unsupported:
        return False
    return need <= need_max


def task_mutants(spec, summ):
    i = spec["index"]
    rw = stream(spec["seed"], i, "workload")
    rt = stream(spec["seed"], i, "tamper")
    ro = stream(spec["seed"], i, "options")
    flags = []
    split = ro.choice(["none", "none", "-storage", "-partition"])
    if split != "none":
        flags.append(split)
    if ro.random() < 0.3:
        flags.append("-no-simplification")
    if ro.random() < 0.3:
        flags.append("-push0")
    if ro.random() < 0.2:
        flags.append("-size")
    if ro.random() < 0.15:
        flags.append("-pop-uninterpreted")
    viols = []
    pairs = []
    meta = []
    for bi in range(4):
        if rw.random() < 0.25:
            base = [it for it in corpus.sample_blocks(rw, 1, max_len=25)[0] if it[0] not in ("tag", "JUMPDEST")]
        else:
            base = B.gen_block(rw, length=rw.choice([4, 6, 8, 12, 16]), pseudo=True, ending=rw.random() < 0.3,
                               profile=rw.choice(["memory", "rules", "plain", "split", "stack"]))
        if rw.random() < 0.35:
            # tail with adjacent memory/storage operations, so that the reordering operators apply
            g = B.Gen(rw, {"pseudo": False})
            g.h = 6
            tail = []
            kind = rw.choice(["ss", "ss", "ls", "hs", "hs"])
            if kind == "hs":
                # hash of memory and a memory store side by side, in either order, operands duplicated from the stack
                a, b2 = rw.randrange(1, 7), rw.randrange(1, 7)
                stn = rw.choice(["MSTORE", "MSTORE", "MSTORE8"])
                if rw.random() < 0.5:
                    tail = [("DUP%d" % a, None), ("DUP%d" % b2, None), ("KECCAK256", None), ("DUP%d" % rw.randrange(2, 8), None), ("DUP%d" % rw.randrange(3, 9), None), (stn, None)]
                else:
                    tail = [("DUP%d" % a, None), ("DUP%d" % b2, None), (stn, None), ("DUP%d" % rw.randrange(1, 7), None), ("DUP%d" % rw.randrange(1, 7), None), ("KECCAK256", None)]
                base = [it for it in base if it[0] not in AJ.END_SET] + tail
                kind = None
            st1, st2 = rw.choice(["MSTORE", "MSTORE8", "SSTORE"]), rw.choice(["MSTORE", "SSTORE", "MSTORE8"])
            for _ in range(0 if kind is None else 4 if kind == "ss" else 3):
                g.items = []
                g.compile(g.leaf(6) if rw.random() < 0.7 else g.addr_tree(6))
                tail += g.items
            if kind is not None:
                tail += [(st1, None), (st2, None)] if kind == "ss" else [("MLOAD" if st1[0] == "M" else "SLOAD", None), ("SWAP2", None), ("SWAP1", None), (st1, None)]
                base = [it for it in base if it[0] not in AJ.END_SET] + tail
        if not legal(base, 16):
            continue
        need0 = evm.stack_need_and_delta(base)[0]
        ta = AJ.items_to_text(base, 2)
        pairs.append([ta, ta])
        meta.append((base, base, "reflexive"))
        for mut, opname in mutants(base, rt, cap=14 if spec["tier"] == "quick" else 40):
            if not legal(mut, need0):
                continue        # not a well-formed stand-in for the same block
            pairs.append([ta, AJ.items_to_text(mut, 2)])
            meta.append((base, mut, opname))
    return judge_pairs(spec, summ, flags, pairs, meta)


ENUM_VOCAB = [("PUSH", "0"), ("PUSH", "1"), ("DUP1", None), ("DUP2", None), ("SWAP1", None), ("POP", None), ("ADD", None), ("SUB", None),
              ("MUL", None), ("AND", None), ("OR", None), ("XOR", None), ("NOT", None), ("ISZERO", None), ("EQ", None), ("LT", None),
              ("GT", None), ("DIV", None), ("MLOAD", None), ("MSTORE", None), ("SLOAD", None), ("SSTORE", None), ("SHL", None), ("EXP", None),
              ("MSTORE8", None), ("KECCAK256", None)]
ENUM_TASKS = len(ENUM_VOCAB)
SIMILAR = {"ADD": "SUB", "SUB": "ADD", "LT": "GT", "GT": "LT", "AND": "OR", "OR": "XOR", "XOR": "OR", "MUL": "ADD", "DIV": "MUL", "EQ": "LT",
           "NOT": "ISZERO", "ISZERO": "NOT", "MSTORE": "SSTORE", "SSTORE": "MSTORE", "MLOAD": "SLOAD", "SLOAD": "MLOAD", "DUP1": "DUP2", "DUP2": "DUP1",
           "SHL": "EXP", "EXP": "SHL", "PUSH": None, "MSTORE8": "MSTORE", "KECCAK256": "ADD"}


def task_enum(spec, summ):
    """Small-scope sweep: every block of <= 3 instructions over ENUM_VOCAB that starts with one given instruction, compared
    with itself (reflexivity: the front-end must not raise on any of them) and with the block whose last instruction is
    replaced by a similar one of the same arity."""
    i = spec["index"]
    first = ENUM_VOCAB[i]
    blocks = [[first]] + [[first, a] for a in ENUM_VOCAB] + [[first, a, b] for a in ENUM_VOCAB for b in ENUM_VOCAB]
    flags = [[], ["-no-simplification"], ["-size"], ["-push0"], ["-pop-uninterpreted"]][i % 5]
    pairs, meta = [], []
    for b in blocks:
        if not legal(b, 8):
            continue
        ta = AJ.items_to_text(b, 2)
        pairs.append([ta, ta])
        meta.append((b, b, "reflexive"))
        name, val = b[-1]
        other = SIMILAR.get(name)
        m = b[:-1] + ([(other, None)] if other else [("PUSH", "1" if val == "0" else "0")] if name == "PUSH" else [])
        if len(m) == len(b) and legal(m, evm.stack_need_and_delta(b)[0]):
            pairs.append([ta, AJ.items_to_text(m, 2)])
            meta.append((b, m, "subst-last"))
        # ... and with the block whose first pushed constant is another one (an operand of whatever consumes it changes)
        for k, (nm, vv) in enumerate(b[:-1]):
            if nm == "PUSH":
                m2 = b[:k] + [("PUSH", "1" if vv == "0" else "0")] + b[k + 1:]
                pairs.append([ta, AJ.items_to_text(m2, 2)])
                meta.append((b, m2, "flip-push"))
                break
    summ["probes"]["enumerated_blocks"] = len(blocks)
    return judge_pairs(spec, summ, flags, pairs, meta)


RULE_SWEEP_TASKS = 36


def task_rule_sweep(spec, summ):
    """Reflexivity over the deterministic rule sweep of C01 (every rule pattern in six shapes: plain, consumed, constants, used
    twice, inner term left on the stack, inner term read by another instruction): the front-end must not raise on any."""
    from gsim.checks import c01
    k = spec["index"] - ENUM_TASKS
    pairs, meta = [], []
    for b in c01.rule_sweep_blocks(k):
        b = [it for it in b if it[0] not in AJ.END_SET]
        if b and b[-1][0] == "PUSH":
            b = b[:-1]           # (the jump target of the sweep's terminator)
        if not legal(b, 16):
            continue
        ta = AJ.items_to_text(b, 2)
        pairs.append([ta, ta])
        meta.append((b, b, "reflexive"))
    flags = [[], ["-size"], ["-partition"], ["-push0"], ["-pop-uninterpreted"], ["-storage"]][k % 6]
    summ["probes"]["rule_sweep_blocks"] = len(pairs)
    return judge_pairs(spec, summ, flags, pairs, meta)


def judge_pairs(spec, summ, flags, pairs, meta):
    i = spec["index"]
    viols = []
    if not pairs:
        return viols
    op = {"argv": flags + ["-greedy"], "pairs": pairs}
    st, out = procs.run_sut(pipe.run_compare, op, cpu_s=300 if len(pairs) < 100 else 1200)
    if st != "ok":
        summ["inconclusive"] += 1
        return viols
    for (base, mut, opname), rec in zip(meta, out):
        if "parse_exc" in rec:
            summ["inconclusive"] += 1
            continue
        summ["evals"] += 1
        rp = {"kind": "pair", "argv": op["argv"], "a": AJ.items_to_text(base, 2), "b": AJ.items_to_text(mut, 2), "op": opname}
        if opname == "reflexive":
            if "raw_exc" in rec or "exc" in rec:
                viols.append({"class": ["reflexive", "raises", (rec.get("raw_exc") or rec.get("exc")).split(":")[0], str(rec.get("raw_frame") or rec.get("frame"))],
                              "detail": "comparing a block with itself raised %s | block %s | flags %s" % (
                                  rec.get("raw_exc") or rec.get("exc"), rp["a"], " ".join(flags)), "replay": rp})
            elif not rec.get("eq"):
                viols.append({"class": ["reflexive", "not-equal"], "detail": "block compared with itself is reported different (%s) | block %s | flags %s" % (
                    rec.get("reason"), rp["a"], " ".join(flags)), "replay": rp})
            continue
        kind = opname.split(":")[0]
        summ["faults"]["mutant_" + kind] = summ["faults"].get("mutant_" + kind, 0) + 1
        if "exc" in rec:
            viols.append({"class": ["raises", kind, rec["exc"].split(":")[0]], "detail": "checker raised %s on a stack-legal pair | a %s | b %s" % (
                rec["exc"], rp["a"], rp["b"]), "replay": rp})
            continue
        d = C.equiv(base, mut, spec["seed"] * 31 + i, 48)
        if d is not None:
            summ["keys"].append(digest([rp["a"], rp["b"], flags]))
        else:
            summ["probes"]["equivalent_mutants"] = summ["probes"].get("equivalent_mutants", 0) + 1
        if rec.get("eq"):
            summ["probes"]["mutants_accepted"] = summ["probes"].get("mutants_accepted", 0) + 1
            if d is not None:
                viols.append({"class": ["accepts-distinguishable", kind, d[0].split(":")[0]],
                              "detail": "checker answered 'equal' but %s | mutation %s | a: %s | b: %s | flags %s" % (
                                  d[1], opname, rp["a"], rp["b"], " ".join(flags)), "replay": dict(rp, state=d[2])})
        else:
            summ["probes"]["mutants_rejected"] = summ["probes"].get("mutants_rejected", 0) + 1
    if not summ["samples"] and len(pairs) > 1:
        summ["samples"].append({"flags": flags, "a": pairs[1][0], "b": pairs[1][1], "op": meta[1][2]})
    return viols


def task_corrupt_peer(spec, summ):
    """Whole pipeline against a reply-corrupting peer: whatever is emitted must be equivalent to the input."""
    op = C.build_pipe_op(spec, backend="solver", peer_kinds=["optimal", "any_model"])
    op["solver_mutator"] = {"seed": spec["index"], "calls": None}
    st, res = C.run_child(op)
    viols = []
    if st != "ok" or res["exc"] is not None:
        summ["probes"]["corrupt_peer_run_failed"] = summ["probes"].get("corrupt_peer_run_failed", 0) + 1
        return viols
    nm = len(res["records"].get("reply_mutations", []))
    summ["faults"]["reply_corrupted"] = summ["faults"].get("reply_corrupted", 0) + nm
    try:
        pairs = C.pairs_of(op, res)
    except ValueError:
        pairs = None
    if not pairs:
        return viols
    for path, a, b in pairs:
        summ["evals"] += 1
        d = C.equiv([(n, None if n == "tag" else v) for n, v in a], [(n, None if n == "tag" else v) for n, v in b], spec["seed"] + 5, 24)
        if d is not None:
            viols.append({"class": ["corrupt-peer-accepted", d[0].split(":")[0]],
                          "detail": "%s: a corrupted solver reply went through: %s | in: %s | out: %s | argv %s" % (
                              path, d[1], AJ.items_to_text(a), AJ.items_to_text(b), " ".join(op["argv"][1:])),
                          "replay": {"kind": "pipe", "op": op}})
    return viols


# ---- forves adapter ------------------------------------------------------------------------------

def render_expected(plain_tokens, stores_split=False):
    """Our own rendering of a plain instruction string into forves segments: list of token lists, split at the
    instructions the adapter treats separately."""
    toks = plain_tokens
    segs = [[]]
    i = 0
    while i < len(toks):
        t = toks[i]
        if t in AJ.END_SET or t in AJ.BEGIN_SET or t in AJ.SPLIT_SET or (stores_split and t in AJ.STORE_SET):
            if segs[-1]:
                segs.append([])
            if t == "ASSIGNIMMUTABLE":
                i += 1
        elif t == "PUSH0":
            segs[-1] += ["PUSH1", "0x0"]
        elif t == "PUSH" and i + 1 < len(toks) and toks[i + 1] in ("[tag]", "data", "#[$]", "[$]"):
            segs[-1] += ["METAPUSH", {"data": "4", "[tag]": "5", "[$]": "6", "#[$]": "7"}[toks[i + 1]], "0x" + toks[i + 2]]
            i += 2
        elif t == "PUSH":
            v = toks[i + 1]
            segs[-1] += ["PUSH%d" % ((len(v) + 1) // 2), "0x" + v]
            i += 1
        elif t in ("PUSHLIB", "PUSHIMMUTABLE"):
            segs[-1] += ["METAPUSH", "2" if t == "PUSHLIB" else "3", "0x" + toks[i + 1]]
            i += 1
        elif t in ("PUSHDEPLOYADDRESS", "PUSHSIZE"):
            segs[-1] += ["METAPUSH", "0" if t == "PUSHDEPLOYADDRESS" else "1", "0x0"]
        else:
            segs[-1].append(t)
        i += 1
    return [s for s in segs if s]


def task_forves(spec, summ):
    i = spec["index"]
    rw = stream(spec["seed"], i, "workload")
    rf = stream(spec["seed"], i, "fs")
    viols = []
    from gsim.work import contracts as CT
    blocks = None
    if rw.random() < 0.5:
        # segments that the optimizer can empty completely (neutral operations in front of / behind a split instruction):
        # the two blocks are then segmented differently
        blocks = []
        for _ in range(4):
            neutral = rw.choice([[("PUSH", "0"), ("ADD", None)], [("PUSH", "1"), ("MUL", None)], [("DUP1", None), ("POP", None)],
                                 [("SWAP1", None), ("SWAP1", None)], [("PUSH", "0"), ("OR", None)]])
            split = rw.choice([[("DUP1", None), ("DUP1", None), ("LOG0", None)], [("GAS", None), ("POP", None)],
                               [("DUP1", None), ("DUP1", None), ("DUP1", None), ("CALLDATACOPY", None)]])
            body = B.gen_block(rw, profile="plain", length=rw.choice([2, 4]), depth=3, pseudo=False, splits=False, ending=False)
            order = rw.choice([0, 1, 2])
            items = (neutral + split + body) if order == 0 else (body + split[:-1] + [split[-1]] + neutral) if order == 1 else (body + split + neutral + split)
            blocks.append(items + [("PUSH [tag]", str(rw.randrange(1, 9))), ("JUMP", None)])
    doc = CT.gen_combined(rw, ncontracts=1, nblocks_init=1, nblocks_run=3, blocks=blocks,
                          block_kw={"profile": rw.choice(["split", "plain", "memory"]), "length": rw.choice([6, 10, 14])})
    flags, desc = O.draw(stream(spec["seed"], i, "options"), backend="-greedy")
    op = C.asm_op(doc, flags + ["-forves"])
    op["fmt"] = "asm"
    op["desc"] = desc
    mode = rf.choice(["true", "true", "true", "false", "parsing", "garbage", "missing"])
    op["env"] = {"tmp_name": "t", "forves_present": mode != "missing", "forves_plan": [mode] * 200}
    op["forves_mode"] = mode
    return judge_forves(op, summ)


def judge_forves(op, summ):
    """All forves clauses for one explicit op (task and replay share it)."""
    viols = []
    mode = op["forves_mode"]
    desc = op["desc"]
    st, res = C.run_child(op)
    if st != "ok":
        summ["inconclusive"] += 1
        return viols
    summ["faults"]["forves_peer_" + mode] = summ["faults"].get("forves_peer_" + mode, 0) + 1
    rp = {"kind": "forves", "op": op}
    # verdict column of the blocks CSV
    verdicts = []
    for p, data in res["files"].items():
        if p.endswith("blocks.csv") or p.endswith("statistics_blocks.csv"):
            rows = data.decode().split("\n")
            hdr = rows[0].split(",")
            if "forves_checker" in hdr:
                import csv
                import io
                for row in csv.DictReader(io.StringIO(data.decode())):
                    verdicts.append((row.get("block_id"), row.get("forves_checker"), row.get("old_instrs"), row.get("new_instrs")))
    for p, data in res["files"].items():
        if p.endswith("statistics_seq.csv"):
            import csv
            import io
            for row in csv.DictReader(io.StringIO(data.decode())):
                if row.get("outcome") == "model":      # (an empty solution_found is a legitimate optimised sub-block)
                    verdicts.append((row.get("block_id"), row.get("forves_checker"), row.get("previous_solution"), row.get("solution_found")))
    if res["exc"] is not None:
        if mode in ("true", "false", "parsing", "missing"):
            viols.append({"class": ["forves", "adapter-raises", mode, res["exc"]["type"], str(res["exc"]["frame"])],
                          "detail": "run with -forves (peer answers %s) raised %s: %s" % (mode, res["exc"]["type"], res["exc"]["msg"][:200]), "replay": rp})
        return viols
    for bid, verdict, old, new in verdicts:
        summ["evals"] += 1
        if verdict == "true" and mode in ("false", "parsing", "garbage", "missing"):
            if old and old.strip() and not all(t in AJ.END_SET or t in AJ.BEGIN_SET for t in old.split()):
                pass    # the adapter returns 'true' by itself for blocks with nothing to compare; judged below by rendering
    # rendering: every input handed to the fake checker must be the faithful rendering of one (old, new) pair
    inputs = res["forves_inputs"]
    expected = []
    for bid, verdict, old, new in verdicts:
        if old is None:
            continue
        ss = desc["split"] == "-storage"      # -storage makes the stores split points for the adapter too
        eo, en = render_expected(old.split(), ss), render_expected(new.split(), ss)
        expected.append((bid, verdict, eo, en, old, new))
    rendered_ok = 0
    for text in inputs:
        summ["evals"] += 1
        segs = [s for s in text.split("#") if s.strip()]
        pairs = []
        for s in segs:
            lines = [l for l in s.split("\n") if l.strip()]
            if len(lines) != 3 or lines[2].strip() != "500":
                viols.append({"class": ["forves", "rendering", "segment-shape"], "detail": "segment %r" % s[:200], "replay": rp})
                break
            pairs.append((lines[0].split(), lines[1].split()))
        else:
            # find the (old,new) pair it belongs to: same number of segments and equal token lists
            match = [e for e in expected if len(e[2]) == len(pairs) and all(p[1] == o for p, o in zip(pairs, e[2]))
                     and all(p[0] == n for p, n in zip(pairs, e[3]))]
            if match:
                rendered_ok += 1
                summ["keys"].append(digest([text]))
            else:
                # is there a block whose *first* segment matches? then later segments are unfaithful
                first = [e for e in expected if e[2] and pairs and pairs[0][1] == e[2][0]]
                cls = ["forves", "rendering", "later-segment-unfaithful" if first and len(pairs) > 1 else "no-block-matches"]
                # only a problem if the adapter then reported 'true' for that block
                bad_true = [e for e in (first or expected) if e[1] == "true"]
                if mode == "true" and bad_true:
                    viols.append({"class": cls, "detail": "the external checker was shown %r which is not the rendering of any compared pair (e.g. old %r / new %r) and 'true' was reported" % (
                        text[:300], bad_true[0][4][:150], bad_true[0][5][:150]), "replay": rp})
                    break
    # conversely: a 'true' for a pair with something to compare must correspond to a rendering the peer was actually shown
    shown = []
    for text in inputs:
        segs = [x for x in text.split("#") if x.strip()]
        pr = []
        for x in segs:
            lines = [l for l in x.split("\n") if l.strip()]
            if len(lines) == 3:
                pr.append((lines[0].split(), lines[1].split()))
        shown.append(pr)
    for bid, verdict, eo, en, old, new in expected:
        if verdict == "true" and (eo or en):
            summ["evals"] += 1
            ok = any(len(pr) == len(eo) == len(en) and all(p[1] == o and p[0] == n for p, o, n in zip(pr, eo, en)) for pr in shown)
            if not ok:
                viols.append({"class": ["forves", "verdict", "true-without-faithful-rendering"],
                              "detail": "block %s is reported 'true' but the external checker was never shown its two sequences (old %r / new %r)" % (
                                  bid, old[:150], new[:150]), "replay": rp})
                break
    summ["probes"]["forves_inputs_rendered_faithfully"] = summ["probes"].get("forves_inputs_rendered_faithfully", 0) + rendered_ok
    # peer faults must not be reported as 'true' for pairs that were actually shown to the peer
    if mode in ("false", "parsing") and inputs:
        shown_true = [v for v in verdicts if v[1] == "true" and v[2] and render_expected(v[2].split(), desc["split"] == "-storage")]
        if shown_true:
            viols.append({"class": ["forves", "verdict", "peer-said-" + mode + "-adapter-says-true"],
                          "detail": "peer answered %s for every query but block %s is reported 'true'" % (mode, shown_true[0][0]), "replay": rp})
    return viols


def task(spec):
    summ = {"evals": 0, "keys": [], "probes": {}, "faults": {}, "sim_s": 0.0, "samples": [], "harness": 0, "inconclusive": 0}
    i = spec["index"]
    if i < ENUM_TASKS:
        viols = task_enum(spec, summ)
    elif i < ENUM_TASKS + RULE_SWEEP_TASKS:
        viols = task_rule_sweep(spec, summ)
    elif i % 8 == 6:
        viols = task_corrupt_peer(spec, summ)
    elif i % 8 in (5, 7):
        viols = task_forves(spec, summ)
    else:
        viols = task_mutants(spec, summ)
    seen = set()
    out = []
    for v in viols:
        if tuple(v["class"]) not in seen:
            seen.add(tuple(v["class"]))
            out.append(v)
    summ["violations"] = out[:3]
    return summ


def replay(rp):
    if rp["kind"] == "forves":
        summ = {"evals": 0, "keys": [], "probes": {}, "faults": {}, "samples": [], "inconclusive": 0}
        op = rp["op"]
        if "forves_mode" not in op:
            op["forves_mode"] = (op.get("env", {}).get("forves_plan") or ["true"])[0] if op.get("env", {}).get("forves_present", True) else "missing"
        v = judge_forves(op, summ)
        return v[0] if v else None
    if rp["kind"] == "pair":
        op = {"argv": rp["argv"], "pairs": [[rp["a"], rp["b"]]]}
        st, out = procs.run_sut(pipe.run_compare, op, cpu_s=120)
        if st != "ok":
            return None
        rec = out[0]
        a, b = C.parse_bl_input(rp["a"]), C.parse_bl_input(rp["b"])
        if rp["op"] == "reflexive":
            if "raw_exc" in rec or "exc" in rec:
                return {"class": ["reflexive", "raises", (rec.get("raw_exc") or rec.get("exc")).split(":")[0],
                                  str(rec.get("raw_frame") or rec.get("frame"))], "detail": str(rec), "replay": rp}
            if not rec.get("eq"):
                return {"class": ["reflexive", "not-equal"], "detail": str(rec), "replay": rp}
            return None
        if rec.get("eq"):
            d = C.equiv(a, b, 1, 64)
            if d is None and rp.get("state"):
                dd = C.equiv_on_state(a, b, rp["state"])
                d = (dd[0], dd[1], rp["state"]) if dd else None
            if d is not None:
                return {"class": ["accepts-distinguishable", rp["op"].split(":")[0], d[0].split(":")[0]], "detail": d[1], "replay": rp}
        return None
    summ = {"evals": 0, "keys": [], "probes": {}, "faults": {}, "samples": [], "inconclusive": 0}
    if rp["kind"] == "pipe":
        st, res = C.run_child(rp["op"])
        if st != "ok" or res["exc"] is not None:
            return None
        for path, a, b in C.pairs_of(rp["op"], res) or []:
            d = C.equiv([(n, None if n == "tag" else v) for n, v in a], [(n, None if n == "tag" else v) for n, v in b], 6, 32)
            if d is not None:
                return {"class": ["corrupt-peer-accepted", d[0].split(":")[0]], "detail": d[1], "replay": rp}
        return None
    return None
