"""Shared pieces of the checks: building ops, pairing blocks, the R1 equivalence oracle."""
import json
import random

from gsim.core import pipe, procs
from gsim.ref import asmjson as AJ
from gsim.ref import evm


def run_child(op, fork=None):
    """Run one op.  Ops with a crash point need a real process boundary; others run in-process between
    two state restores unless GSIM_FORK=1 (see procs.run_inproc)."""
    if op.get("crash_at") is not None:
        fork = True
    return procs.run_sut(pipe.run_op, op, fork=fork, **pipe.child_limits(op))


def bl_op(block_list, argv_flags, name="b", style=0, **extra):
    """Op for a -bl run: blocks are written one per line."""
    text = "\n".join(AJ.items_to_text(b, style) for b in block_list)
    op = {"files": {"/sim/in/%s.txt" % name: text}, "argv": ["/sim/in/%s.txt" % name, "-bl"] + list(argv_flags),
          "env": {"tmp_name": "t"}, "size_hint": sum(len(b) for b in block_list)}
    op.update(extra)
    return op


def asm_op(doc, argv_flags, name="c", single=False, **extra):
    text = json.dumps(doc)
    p = "/sim/in/%s.json_solc" % name
    argv = [p] + (["-single-json"] if single else []) + list(argv_flags)
    n = 0
    for _, asm in (AJ.contracts_of(doc) if not single else [("c", doc)]):
        if asm:
            for _, code in AJ.code_sections(asm):
                n += len(code)
    op = {"files": {p: text}, "argv": argv, "env": {"tmp_name": "t"}, "size_hint": n}
    op.update(extra)
    return op


def output_path(op):
    """Where the tool writes the optimized file (it ignores -o and writes into the cwd)."""
    inp = op["argv"][0]
    base = inp.split("/")[-1].split(".")[0]
    if "-optimize-from-log" in op["argv"]:
        return "/sim/cwd/%s_optimized_from_log.json_solc" % base
    if "-single-json" in op["argv"]:
        return "/sim/cwd/%s_optimized.json" % base
    return "/sim/cwd/%s_optimized.json_solc" % base


def log_path(op):
    base = op["argv"][0].split("/")[-1].split(".")[0]
    return "/sim/cwd/%s.log" % base


def bl_pairs(op, res):
    """[(input items, output items)] per block for a -bl run, or None if the output is missing."""
    out = res["files"].get(output_path(op))
    if out is None:
        return None
    text = op["files"][op["argv"][0]]
    ins = []
    for line in text.split("\n"):
        ins.extend(AJ.cut_blocks(parse_bl_input(line)))
    outs = AJ.parse_plain_output(out.decode())
    return ins, outs


def parse_bl_input(text):
    """Our own reading of the -bl input language (the styles items_to_text can produce)."""
    toks = text.split()
    items = []
    i = 0
    import re
    while i < len(toks):
        t = toks[i]
        if t == "PUSH0":
            items.append(("PUSH", "0"))
        elif re.fullmatch(r"PUSH[0-9]+", t):
            v = toks[i + 1]
            items.append(("PUSH", "%x" % (int(v, 16) if v.startswith("0x") else int(v))))
            i += 1
        elif t == "PUSH" and toks[i + 1] in ("[tag]", "data", "#[$]", "[$]"):
            items.append(("PUSH " + toks[i + 1], "%x" % int(toks[i + 2], 16)))
            i += 2
        elif t == "PUSH":
            items.append(("PUSH", "%x" % int(toks[i + 1], 16)))
            i += 1
        elif t in ("PUSHLIB", "PUSHIMMUTABLE", "ASSIGNIMMUTABLE", "tag"):
            items.append((t, toks[i + 1]))
            i += 1
        else:
            items.append((t, None))
        i += 1
    return items


def doc_block_pairs(in_doc, out_doc, single=False):
    """Aligned (path, in block items, out block items) for two documents, cutting blocks by our own
    rule.  Raises ValueError when the skeleton does not align (that is C09's business, reported there)."""
    pairs = []
    if single:
        cons = [("contract", in_doc, out_doc)]
    else:
        cons = []
        for k, v in in_doc["contracts"].items():
            o = out_doc["contracts"].get(k)
            cons.append((k, (v or {}).get("asm"), (o or {}).get("asm")))
    for k, a, b in cons:
        if not a or not b:
            continue
        sa, sb = AJ.code_sections(a), dict(AJ.code_sections(b))
        for pa, ca in sa:
            if pa not in sb:
                raise ValueError("code section %s%s is missing in the output" % (k, pa))
            pb, cb = pa, sb[pa]
            ba, bb = AJ.cut_blocks(ca), AJ.cut_blocks(cb)
            if len(ba) != len(bb):
                raise ValueError("block count differs in %s%s: %d vs %d" % (k, pa, len(ba), len(bb)))
            for i, (x, y) in enumerate(zip(ba, bb)):
                pairs.append(("%s%s#%d" % (k, pa, i), AJ.items_of_code(x), AJ.items_of_code(y)))
    return pairs


def equiv(in_items, out_items, seed, k=12):
    """R1 oracle.  Returns None if no difference was found, else (class string, detail, state json)."""
    a = [i for i in AJ.canon_items(in_items)]
    b = [i for i in AJ.canon_items(out_items)]
    if a == b:
        return None
    try:
        na, da = evm.stack_need_and_delta(a)
        nb, db = evm.stack_need_and_delta(b)
    except evm.Unsupported as e:
        return ("unknown-opcode", "emitted or given opcode not in the vocabulary: %s" % e, None)
    if nb > na:
        return ("depth", "output needs input depth %d > %d" % (nb, na), None)
    if da != db:
        return ("delta", "stack delta %d vs %d" % (db, da), None)
    rng = random.Random(seed)
    states = evm.make_states(rng, na, k, evm.harvest_constants(a, b))
    for st in states:
        r1 = evm.execute(a, st)
        r2 = evm.execute(b, st)
        d = evm.first_difference(r1, r2)
        if d is not None:
            return (d[0], d[1], st.to_json())
    return None


def equiv_on_state(in_items, out_items, state_json):
    st = evm.State.from_json(state_json)
    a, b = AJ.canon_items(in_items), AJ.canon_items(out_items)
    return evm.first_difference(evm.execute(a, st), evm.execute(b, st))


def opcode_multiset_diff(a, b):
    from collections import Counter
    ca, cb = Counter(n for n, _ in a), Counter(n for n, _ in b)
    gone = sorted((ca - cb).elements())
    new = sorted((cb - ca).elements())
    return "-" + ",".join(gone[:6]) + "+" + ",".join(new[:6])


# ------------------------------------------------------------------------------------------
# generic seeded PIPE op (shared by C01, C08, C09, C17 ...)

HONEST = ["optimal", "optimal", "any_model", "non_optimal", "skewed", "nth_model", "no_model", "unsat", "timeout", "no_model_bounds"]


def peer_plan(rng, n, kinds=None):
    plan = []
    for _ in range(n):
        k = rng.choice(kinds or HONEST)
        e = {"kind": k, "seed": rng.randrange(1, 1 << 16)}
        if k == "skewed":
            e["mode"] = rng.choice(["random", "random", "maximise"])
        if k == "nth_model":
            e["n"] = rng.randrange(1, 4)
        if k == "timeout":
            e["rlimit"] = rng.choice([2000, 20000, 200000])
        plan.append(e)
    return plan


def build_pipe_op(spec, peer_kinds=None, fmt=None, backend=None, extra_flags=(), profile=None, mix=(6, 2, 2)):
    """Op for run `index` of `seed`: streams workload/options/peer are independent."""
    from gsim.core.prng import stream
    from gsim.work import blocks as B, contracts as CT, options as O
    i = spec["index"]
    rw = stream(spec["seed"], i, "workload")
    ro = stream(spec["seed"], i, "options")
    rp = stream(spec["seed"], i, "peer")
    mode = i % sum(mix)
    if backend is None:
        backend = "-greedy" if mode < mix[0] else ("solver" if mode < mix[0] + mix[1] else "-ub-greedy")
    flags, desc = O.draw(ro, backend=backend)
    flags = list(flags) + list(extra_flags)
    if fmt is None:
        fmt = "bl" if i % 3 != 2 else ("asm" if (i // 3) % 2 == 0 else "single")
    small = backend != "-greedy"
    if fmt == "bl":
        nb = 2 if small else 6
        bl = []
        for j in range(nb):
            L = rw.choice([3, 4, 5, 6, 8, 10]) if small else None
            bl.append(B.gen_block(rw, profile=profile, length=L, ending=(j < nb - 1) or rw.random() < 0.3, pseudo=False))
        op = bl_op(bl, flags, style=rw.choice([0, 0, 0, 1, 3]))
    else:
        bk = {"length": 6} if small else {}
        if profile:
            bk["profile"] = profile
        kw = {"block_kw": bk}
        if fmt == "asm":
            doc = CT.gen_combined(rw, ncontracts=1 if small else 2, nblocks_init=1, nblocks_run=2 if small else 4, **kw)
            op = asm_op(doc, flags)
        else:
            doc = CT.gen_contract_asm(rw, nblocks_init=1, nblocks_run=2 if small else 4, **kw)
            op = asm_op(doc, flags, single=True)
    if backend != "-greedy":
        op["peer_plan"] = peer_plan(rp, 12, peer_kinds)
        op["peer_default"] = {"kind": "optimal"}
        op["cpu_s"] = 120
    op["desc"] = desc
    op["fmt"] = fmt
    return op


def pairs_of(op, res):
    """Aligned (path, input items, emitted items) per block, or None when no output file exists."""
    fmt = op["fmt"]
    if fmt == "bl":
        r = bl_pairs(op, res)
        if r is None:
            return None
        ins, outs = r
        if len(ins) != len(outs):
            raise ValueError("block count differs: %d vs %d" % (len(ins), len(outs)))
        return [("#%d" % i, a, b) for i, (a, b) in enumerate(zip(ins, outs))]
    out = res["files"].get(output_path(op))
    if out is None:
        return None
    in_doc = json.loads(op["files"][op["argv"][0]])
    out_doc = json.loads(out.decode())
    return doc_block_pairs(in_doc, out_doc, single=(fmt == "single"))
