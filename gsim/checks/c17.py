"""C17 -- instruction-set restrictions chosen by the user are honoured (PUSH0 flag, -c contract).

PIPE with the PUSH0 flag drawn per op, on zero-rich blocks (literal zero pushes in several spellings,
zeros produced by folding and by rule results), and *several ops in one process* with different flag
values: the flag is a process-wide variable read at parse, cost and emission time, so the history of flag
values is the schedule.  Oracles: R4 (pricing), R5 (emitted items).
"""
import json
import re

from gsim.checks import common as C
from gsim.checks import c08, c09
from gsim.core import pipe, procs
from gsim.core.prng import stream, digest
from gsim.ref import asmjson as AJ
from gsim.ref import cost as R4
from gsim.work import blocks as B
from gsim.work import contracts as CT
from gsim.work import options as O

ID = "C17"
LEVEL = "exploration"
RULE = ("one evaluation = one emitted block (or one printed-totals record, or one -c output document) of an op executed after a "
        "seeded history of 0..2 earlier ops with other PUSH0 settings in the same process; checks: no PUSH0 appears under -push0 unless "
        "the input block had one, zero pushes are priced per the flag in initial and optimized totals (R4), the op's files equal those of "
        "the same op in a fresh process, -c output/log/rows concern the selected contract only; non-trivial = the block pushes a zero "
        "(literal, folded or rule result) in input or output; distinct = digest of (block, flag history, option set)")
COMPONENTS = {"real": ["gasol_asm.execute_gasol and below; constants._set_push0 flag propagation", "greedy", "z3 4.8.12 peer"],
              "stub": ["SimFS", "SimClock", "OptiMathSAT reply format"]}
ASSUMPTIONS = ["within one multi-op process the split mode is held fixed (-storage extends constants.split_block for the rest of the "
               "process: a cross-option leak outside this property's statement)",
               'PUSH "0" and PUSH0 are the same assembly item in JSON output; the plain-text rendering must spell PUSH0 when enabled']

ZERO_SNIPPETS = [
    [("PUSH", "0")], [("PUSH", "0"), ("PUSH", "0"), ("ADD", None)], [("DUP1", None), ("DUP1", None), ("SUB", None)],
    [("DUP1", None), ("DUP1", None), ("XOR", None)], [("PUSH", "1"), ("PUSH", "1"), ("SUB", None)], [("PUSH", "1"), ("ISZERO", None)],
    [("DUP1", None), ("PUSH", "0"), ("AND", None)], [("DUP1", None), ("PUSH", "0"), ("MUL", None)], [("PUSH", "0"), ("NOT", None), ("NOT", None)],
    [("PUSH", "5"), ("PUSH", "0"), ("DIV", None)], [("PUSH", "0"), ("DUP2", None), ("MSTORE", None)], [("PUSH", "0"), ("SLOAD", None)],
    [("PUSH", "0"), ("PUSH", "0"), ("RETURN", None)], [("PUSH", "ff"), ("PUSH", "100"), ("AND", None)], [("DUP2", None), ("DUP1", None), ("LT", None)],
    [("PUSH", "0"), ("PUSH", "0"), ("PUSH", "0"), ("MSTORE", None)], [("PUSH", "0"), ("DUP1", None), ("DUP1", None)],
]


def zero_block(rw, pseudo=False):
    items = []
    h = rw.choice([2, 3, 4])
    n = rw.choice([1, 2, 3, 4])
    for _ in range(n):
        sn = rw.choice(ZERO_SNIPPETS)
        items += [it for it in sn if it[0] not in ("RETURN",)]
        if rw.random() < 0.5:
            items += B.gen_block(rw, profile=rw.choice(["rules", "plain", "memory"]), length=rw.choice([2, 4, 6]), depth=h,
                                 pseudo=pseudo, splits=False, ending=False)
    if rw.random() < 0.3:
        items += [("PUSH", "0"), ("PUSH", "0"), (rw.choice(["RETURN", "REVERT"]), None)]
    return items


def plan(tier, seed, batch):
    if tier == "quick":
        if batch > 0:
            return []
        n = 200
    else:
        n = 1000
    return [{"index": batch * 100000 + i, "seed": seed, "tier": tier} for i in range(n)]


def make_op(rw, ro, rp, fmt, backend, split, push0, contract_pick=False):
    flags, desc = O.draw(ro, backend=backend)
    flags = [f for f in flags if f not in ("-storage", "-partition", "-push0")]
    if split != "none":
        flags.append(split)
    if not push0:
        flags.append("-push0")
    desc["split"] = split
    desc["push0"] = push0
    small = backend != "-greedy"
    if fmt == "bl":
        bl = [zero_block(rw) + ([("PUSH", "%x" % rw.randrange(1, 300)), ("JUMP", None)] if j < 2 else []) for j in range(2 if small else 4)]
        op = C.bl_op(bl, flags, style=rw.choice([0, 0, 1, 3]))
        # some literal zero spellings that only the text format has
        if rw.random() < 0.4:
            p = op["argv"][0]
            op["files"][p] = op["files"][p].replace("PUSH1 0x0 ", rw.choice(["PUSH0 ", "PUSH1 0 ", "PUSH1 0x00 ", "PUSH1 0x0 "]), 2)
    else:
        blocks = [zero_block(rw, pseudo=True) + [("PUSH [tag]", str(rw.randrange(1, 9))), ("JUMP", None)] for _ in range(6)]
        if fmt == "asm":
            doc = CT.gen_combined(rw, ncontracts=2, nblocks_init=1, nblocks_run=2, blocks=blocks)
            op = C.asm_op(doc, flags + (["-log"] if not contract_pick and rw.random() < 0.6 else []))
            if contract_pick:
                names = [k for k, v in doc["contracts"].items() if v.get("asm")]
                cn = rw.choice(names).split("/")[-1].split(":")[-1]
                op["argv"] += ["-c", cn, "-log"]
                op["contract"] = cn
        else:
            doc = CT.gen_contract_asm(rw, nblocks_init=1, nblocks_run=3, blocks=blocks)
            op = C.asm_op(doc, flags, single=True)
    op["fmt"] = fmt
    op["desc"] = desc
    if small:
        op["peer_plan"] = C.peer_plan(rp, 8, ["optimal", "optimal", "any_model", "no_model"])
        op["cpu_s"] = 120
    return op


def raw_push0_count_json(code):
    return sum(1 for e in code if e.get("name") == "PUSH0")


def check_result(op, res, summ):
    viols = []
    desc = op["desc"]
    push0 = desc["push0"]
    rp = {"ops": [op]}
    if res["exc"] is not None:
        summ["inconclusive"] += 1
        return viols
    # ---- emitted spelling ----------------------------------------------------------------
    if op["fmt"] == "bl":
        out = res["files"].get(C.output_path(op))
        if out is None:
            return viols
        in_lines = op["files"][op["argv"][0]]
        ins = []
        for line in in_lines.split("\n"):
            ins.extend(AJ.cut_blocks(C.parse_bl_input(line)))
        in_raw_has_push0 = "PUSH0" in in_lines.split()
        out_lines = out.decode().split("\n")
        for bi, line in enumerate(out_lines):
            toks = line.split()
            summ["evals"] += 1
            zero_in = bi < len(ins) and any(n == "PUSH" and v == "0" for n, v in ins[bi])
            zero_out = "PUSH0" in toks or any(t == "0x0" or t == "0x00" for t in toks)
            if zero_in or zero_out:
                summ["keys"].append(digest([line, bi < len(ins) and ins[bi], push0, op["argv"][1:]]))
            if not push0 and "PUSH0" in toks and not in_raw_has_push0:
                viols.append({"class": ["push0-disabled", "emitted", "bl"], "detail": "PUSH0 emitted under -push0: %s | argv %s" % (
                    line, " ".join(op["argv"][1:])), "replay": rp})
            if push0:
                for i, t in enumerate(toks):
                    if re.fullmatch(r"PUSH[1-9]\d*", t) and i + 1 < len(toks) and int(toks[i + 1], 16) == 0:
                        viols.append({"class": ["push0-enabled", "zero-not-spelled-PUSH0", "bl"], "detail": "zero push emitted as %s %s: %s" % (
                            t, toks[i + 1], line), "replay": rp})
    else:
        out = res["files"].get(C.output_path(op))
        if out is None:
            return viols
        in_doc = json.loads(op["files"][op["argv"][0]])
        out_doc = json.loads(out.decode())
        if op.get("contract"):
            cn = op["contract"]
            key = [k for k in in_doc["contracts"] if k.split("/")[-1].split(":")[-1] == cn][0]
            pairs_src = [(AJ.code_sections(in_doc["contracts"][key]["asm"]), AJ.code_sections(out_doc))]
            # the document, the log and the rows concern that contract only
            vs, st = c09.compare_docs(op, in_doc, out_doc)
            for cls, detail in vs:
                viols.append({"class": ["contract-selection"] + cls, "detail": detail, "replay": rp})
            log = res["files"].get(C.log_path(op))
            if log is not None:
                bad = [k for k in json.loads(log.decode()) if not k.startswith(cn + "_")]
                if bad:
                    viols.append({"class": ["contract-selection", "log-foreign-key"], "detail": "log keys of other contracts: %r" % bad[:3], "replay": rp})
            for p, data in res["files"].items():
                if p.endswith(".csv"):
                    for line in data.decode().split("\n")[1:]:
                        cols = line.split(",")
                        if len(cols) > 1 and cols[1] and not cols[1].startswith(cn + "_") and not cols[1].startswith('"'):
                            viols.append({"class": ["contract-selection", "csv-foreign-row"], "detail": "%s row %s" % (p, cols[1]), "replay": rp})
                            break
            summ["evals"] += 1
            summ["probes"]["contract_selected"] = summ["probes"].get("contract_selected", 0) + 1
        elif op["fmt"] == "single":
            pairs_src = [(AJ.code_sections(in_doc), AJ.code_sections(out_doc))]
        else:
            pairs_src = [(AJ.code_sections(v["asm"]), AJ.code_sections(out_doc["contracts"][k]["asm"]))
                         for k, v in in_doc["contracts"].items() if v.get("asm")]
        for sa, sb in pairs_src:
            for (pa, ca), (pb, cb) in zip(sa, sb):
                ba, bb = AJ.cut_blocks(ca), AJ.cut_blocks(cb)
                for x, y in zip(ba, bb):
                    summ["evals"] += 1
                    zin = any(e["name"] == "PUSH" and e.get("value") == "0" for e in x)
                    zout = any(e.get("name") == "PUSH0" or (e.get("name") == "PUSH" and e.get("value") == "0") for e in y)
                    if zin or zout:
                        summ["keys"].append(digest([x, y, push0, op["argv"][1:]]))
                    if not push0 and raw_push0_count_json(y) > raw_push0_count_json(x):
                        viols.append({"class": ["push0-disabled", "emitted", op["fmt"]], "detail": "PUSH0 emitted under -push0 in %s: %s" % (
                            pa, AJ.items_to_text(AJ.items_of_code(y))), "replay": rp})
    # ---- pricing: printed totals against R4 under the op's own flag ------------------------------
    if not op.get("contract"):
        summ2, vs = {"evals": 0, "keys": [], "probes": {}, "faults": {}, "sim_s": 0, "samples": [], "harness": 0, "inconclusive": 0}, []
        try:
            pairs = C.pairs_of(op, res)
        except ValueError:
            pairs = None
        if pairs:
            tot = {"gas0": 0, "gas1": 0, "size0": 0, "size1": 0, "len0": 0, "len1": 0}
            ok = True
            for path, a, b in pairs:
                try:
                    g0, s0, l0 = R4.block_costs(a, push0)
                    g1, s1, l1 = R4.block_costs(b, push0)
                except Exception:
                    ok = False
                    break
                if path.count("/.data/") > 1:
                    continue          # nested sub-assemblies are kept verbatim by the tool and are not part of its totals
                init = "/.data/" not in path and op["fmt"] != "bl"
                tot["gas0"] += g0
                tot["gas1"] += g1
                tot["len0"] += l0
                tot["len1"] += l1
                if not init:
                    tot["size0"] += s0
                    tot["size1"] += s1
            if ok:
                summ["evals"] += 1
                printed = {}
                for k, rx in c08.TOT.items():
                    m = re.search(rx, res["stdout"])
                    printed[k] = int(m.group(1)) if m else None
                bad = [k for k in tot if printed[k] != tot[k]]
                if bad:
                    viols.append({"class": ["pricing", "push0-on" if push0 else "push0-off", bad[0].rstrip("01"), bad[0][-1] == "0" and "initial" or "optimized"],
                                  "detail": "printed %s, R4 under the flag gives %s | argv %s" % (
                                      {k: printed[k] for k in bad}, {k: tot[k] for k in bad}, " ".join(op["argv"][1:])), "replay": rp})
    return viols


def comparable(res):
    return {"files": {p: d for p, d in res["files"].items() if p.startswith("/sim/cwd/")},
            "totals": [l for l in res["stdout"].split("\n") if l.startswith("Estimated") or "number of instructions" in l],
            "exc": res["exc"] and res["exc"]["type"]}


def spec_violations(blocks, flags, summ):
    """The instruction set and its prices inside the specification handed to the back-ends: with PUSH0 disabled no
    instruction is a PUSH0 and a zero push costs 3 gas / 2 bytes; with PUSH0 enabled every zero push is a PUSH0 (2 gas, 1 byte)."""
    enabled = "-push0" not in flags
    st, recs = procs.run_sut(pipe.run_specs, {"argv": flags, "blocks": blocks}, cpu_s=200)
    out = []
    if st != "ok":
        return out
    for text, rec in zip(blocks, recs):
        if "exc" in rec:
            continue
        for key, sfs in rec["sfs"].items():
            summ["evals"] += 1
            for u in sfs["user_instrs"]:
                zero = u.get("push") and u.get("value") == [0]
                is0 = u["disasm"] == "PUSH0" or str(u.get("opcode")).lower() == "5f" or u["id"].startswith("PUSH0")
                bad = None
                if not enabled and is0:
                    bad = "PUSH0 in the specification although the opcode is disabled"
                elif zero and enabled and not is0:
                    bad = "zero push that is not a PUSH0 although the opcode is enabled"
                elif zero and (u.get("gas"), u.get("size")) != ((2, 1) if enabled else (3, 2)):
                    bad = "zero push priced gas=%r size=%r" % (u.get("gas"), u.get("size"))
                if bad:
                    out.append({"class": ["spec-instruction-set", "push0-on" if enabled else "push0-off", bad.split(" ")[0]],
                                "detail": "%s: %s: %s | block %s | flags %s" % (key, u["id"], bad, text, " ".join(flags)),
                                "replay": {"kind": "spec", "blocks": [text], "flags": flags}})
                    break
    return out


def check_spec_instruction_set(rw, i, summ):
    blocks = []
    for _ in range(4):
        b = list(rw.choice(ZERO_SNIPPETS))
        b = [it for it in b if it[0] != "RETURN"]
        b += rw.choice([[], [("SLOAD", None)], [("DUP2", None), ("SSTORE", None)], [("DUP2", None), ("ADD", None)], [("POP", None)], [("DUP1", None), ("MSTORE", None)]])
        blocks.append(AJ.items_to_text(b, 2))
    flags = (["-push0"] if i % 2 == 0 else []) + [[], ["-size"], ["-length"], ["-no-simplification"]][(i // 2) % 4]
    return spec_violations(blocks, flags, summ)


def task(spec):
    i = spec["index"]
    rw = stream(spec["seed"], i, "workload")
    ro = stream(spec["seed"], i, "options")
    rp = stream(spec["seed"], i, "peer")
    rh = stream(spec["seed"], i, "history")
    summ = {"evals": 0, "keys": [], "probes": {}, "faults": {}, "sim_s": 0.0, "samples": [], "harness": 0, "inconclusive": 0}
    backend = "-greedy" if i % 5 else "solver"
    split = rh.choice(["none", "none", "-storage", "-partition"])
    nops = rh.choice([1, 2, 2, 3])
    ops = []
    for j in range(nops):
        fmt = rh.choice(["bl", "bl", "asm", "single"])
        ops.append(make_op(rw, ro, rp, fmt, backend, split, rh.random() < 0.5, contract_pick=(fmt == "asm" and rh.random() < 0.35)))
    st, results = procs.run_sut(pipe.run_op_seq, ops, cpu_s=200)
    viols = []
    if st != "ok":
        summ["inconclusive"] = 1
        return dict(summ, violations=[])
    for op, res in zip(ops, results):
        summ["sim_s"] += res["sim_time"]
        for v in check_result(op, res, summ):
            v["replay"] = {"ops": ops}
            viols.append(v)
    # the last op alone, in a pristine process, must give the same files and totals
    if nops > 1:
        st1, alone = procs.run_sut(pipe.run_op_seq, [ops[-1]], cpu_s=200)
        if st1 == "ok":
            summ["evals"] += 1
            hist = [o["desc"]["push0"] for o in ops]
            summ["probes"]["flag_history_%s" % "".join("1" if h else "0" for h in hist)] = 1
            a, b = comparable(results[-1]), comparable(alone[0])
            if a != b:
                what = "exc" if a["exc"] != b["exc"] else "totals" if a["totals"] != b["totals"] else \
                    sorted(p for p in set(a["files"]) | set(b["files"]) if a["files"].get(p) != b["files"].get(p))[0].split("_")[-1]
                viols.append({"class": ["flag-history", what, "prev=%s" % ("on" if hist[-2] else "off"), "now=%s" % ("on" if hist[-1] else "off")],
                              "detail": "op %d gives different %s after ops with PUSH0 flags %s than alone | argv %s" % (
                                  nops - 1, what, hist[:-1], " ".join(ops[-1]["argv"][1:])), "replay": {"ops": ops}})
    # the log of an asm run replayed with the same options: the instruction-set choice has to reach that path as well
    for op, res in zip(ops, results):
        if op["fmt"] == "asm" and "-log" in op["argv"] and "-c" not in op["argv"] and res["exc"] is None:
            from gsim.checks import c11
            log = res["files"].get(C.log_path(op))
            direct = res["files"].get(C.output_path(op))
            if log is None or direct is None:
                continue
            files = dict(op["files"])
            files[C.log_path(op)] = log.decode()
            rop = c11.replay_op(op, files)
            st2, rres = procs.run_sut(pipe.run_op_seq, [rop], cpu_s=200)
            if st2 != "ok":
                continue
            r2 = rres[0]
            summ["evals"] += 1
            summ["probes"]["log_replayed_push0_%s" % ("on" if op["desc"]["push0"] else "off")] = \
                summ["probes"].get("log_replayed_push0_%s" % ("on" if op["desc"]["push0"] else "off"), 0) + 1
            out2 = r2["files"].get(C.output_path(rop))
            if r2["exc"] is not None or out2 is None:
                viols.append({"class": ["replay", "push0-on" if op["desc"]["push0"] else "push0-off", "error"],
                              "detail": "replay of the run's own log failed (%s) | argv %s" % (
                                  (r2["exc"] or {}).get("msg", "no output")[:200], " ".join(rop["argv"][1:])), "replay": {"ops": ops}})
            elif out2 != direct:
                viols.append({"class": ["replay", "push0-on" if op["desc"]["push0"] else "push0-off", "differs"],
                              "detail": "replay of the run's own log gives another document (PUSH0 count %d vs %d) | argv %s" % (
                                  out2.count(b'"PUSH0"'), direct.count(b'"PUSH0"'), " ".join(rop["argv"][1:])), "replay": {"ops": ops}})
            break
    viols += check_spec_instruction_set(rw, i, summ)
    if not summ["samples"]:
        summ["samples"].append({"ops": [{"argv": o["argv"][1:], "push0": o["desc"]["push0"]} for o in ops]})
    seen = set()
    out = []
    for v in viols:
        if tuple(v["class"]) not in seen:
            seen.add(tuple(v["class"]))
            out.append(v)
    summ["violations"] = out[:3]
    return summ


def replay(rp):
    if rp.get("kind") == "spec":
        v = spec_violations(rp["blocks"], rp["flags"], {"evals": 0})
        return v[0] if v else None
    ops = rp["ops"]
    st, results = procs.run_sut(pipe.run_op_seq, ops, cpu_s=200)
    if st != "ok":
        return None
    summ = {"evals": 0, "keys": [], "probes": {}, "inconclusive": 0}
    for op, res in zip(ops, results):
        vs = check_result(op, res, summ)
        if vs:
            return vs[0]
    for op, res in zip(ops, results):
        if op["fmt"] == "asm" and "-log" in op["argv"] and "-c" not in op["argv"] and res["exc"] is None:
            from gsim.checks import c11
            log, direct = res["files"].get(C.log_path(op)), res["files"].get(C.output_path(op))
            if log is None or direct is None:
                continue
            files = dict(op["files"])
            files[C.log_path(op)] = log.decode()
            rop = c11.replay_op(op, files)
            st2, rres = procs.run_sut(pipe.run_op_seq, [rop], cpu_s=200)
            if st2 == "ok":
                out2 = rres[0]["files"].get(C.output_path(rop))
                tag = "push0-on" if op["desc"]["push0"] else "push0-off"
                if rres[0]["exc"] is not None or out2 is None:
                    return {"class": ["replay", tag, "error"], "detail": "replay of the run's own log failed", "replay": rp}
                if out2 != direct:
                    return {"class": ["replay", tag, "differs"], "detail": "replay of the run's own log gives another document", "replay": rp}
            break
    if len(ops) > 1:
        st1, alone = procs.run_sut(pipe.run_op_seq, [ops[-1]], cpu_s=200)
        if st1 == "ok" and comparable(results[-1]) != comparable(alone[0]):
            return {"class": ["flag-history"], "detail": "last op differs from the same op alone", "replay": rp}
    return None
