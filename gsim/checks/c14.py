"""C14 -- splitting partitions the block; rebuilding with nothing optimized is the identity.

Fault enumeration over peer outcomes: for a block with m sub-blocks the solver peer fails on all m calls
(emitted block must equal the input, item for item), succeeds on exactly call k for each k (only segment
k may change), or succeeds on a seeded subset.  Transparent recorders on rebuild_optimized_asm_block and
on specification generation capture what the real code saw; an independent positional rebuild gives
the expected result.  Split bait: LOGn/CALL/.../GAS/ASSIGNIMMUTABLE at first, last and consecutive positions,
stores for -storage, lengths around the -partition threshold.
"""
import json

from gsim.checks import common as C
from gsim.core.prng import stream, digest
from gsim.ref import asmjson as AJ
from gsim.ref import evm
from gsim.work import blocks as B
from gsim.work import corpus

ID = "C14"
LEVEL = "fault_enumeration"
RULE = ("one evaluation = one observed (block, sub_block_list, replaced-subset) triple captured at the rebuild seam, checked for: "
        "join of sub-blocks == optimizable instructions, every specification key names a reported sub-block, source-stack sizes chain, "
        "and rebuild result == independent positional rebuild; the replaced subset is driven by the solver peer (all fail / exactly k / "
        "seeded subset / all succeed via greedy), and by the harness directly (rebuild probe: empty / own / neutral / split-instruction-copy replacements of every sub-block); non-trivial = the block has >= 2 sub-blocks; distinct = digest of (block, policy, subset)")
COMPONENTS = {"real": ["ir_block.evm2rbr_compiler / generate_subblocks, rebuild_optimized_asm_block, process_blocks_split, whole CLI path",
                       "z3 4.8.12 peer", "greedy"], "stub": ["SimFS", "SimClock"]}
ASSUMPTIONS = ["per block the single-success patterns are enumerated up to 5 sub-blocks (all of them when m <= 5), base blocks are sampled",
               "split instructions are the documented set (plus stores under -storage; store positions chosen by the tool under -partition)"]


def plan(tier, seed, batch):
    if tier == "quick":
        if batch > 0:
            return []
        n = 220
    else:
        n = 900
    return [{"index": batch * 100000 + i, "seed": seed, "tier": tier} for i in range(n)]


def split_bait(rw, policy):
    r = rw.random()
    if r < 0.2:
        b = corpus.sample_blocks(rw, 1, min_len=8, max_len=40)[0]
        return [it for it in b if it[0] not in ("tag", "JUMPDEST") and it[0] not in evm.PSEUDO_PUSH and it[0] != "ASSIGNIMMUTABLE"] or \
            B.gen_block(rw, profile="split", pseudo=False)
    if r < 0.45:
        # (i) neutral operations next to a split instruction: the optimizer empties that sub-block completely;
        # (ii) split instructions whose operands sit around stack positions 9..11 (two-digit variable indices)
        items = []
        depth = rw.choice([2, 4, 9, 10, 11, 12])
        for _ in range(rw.choice([1, 2, 3])):
            neutral = rw.choice([[("PUSH", "0"), ("ADD", None)], [("PUSH", "1"), ("MUL", None)], [("DUP1", None), ("POP", None)],
                                 [("SWAP1", None), ("SWAP1", None)], [("PUSH", "0"), ("OR", None)], []])
            k = rw.choice([depth, depth - 1, max(1, depth - 2), 1, 2])
            k = max(1, min(16, k))
            split = rw.choice([[("DUP%d" % k, None), ("DUP1", None), ("LOG0", None)], [("GAS", None), ("POP", None)],
                               [("DUP%d" % k, None), ("DUP%d" % max(1, k - 1), None), ("DUP1", None), ("CALLDATACOPY", None)],
                               [("DUP%d" % k, None), ("DUP1", None), ("DUP1", None), ("LOG1", None)]])
            body = rw.choice([[("SWAP1", None), ("POP", None)], [("DUP2", None), ("ADD", None)], [], [("PUSH", "7"), ("SWAP1", None), ("SUB", None)]])
            items += rw.choice([neutral + split + body, body + split + neutral, neutral + split + neutral + split])
        return items
    L = rw.choice([6, 10, 14, 18, 21, 22, 23, 24, 26, 30]) if policy == "-partition" else rw.choice([4, 8, 12, 18, 24])
    prof = "memory" if policy != "none" and rw.random() < 0.5 else "split"
    b = B.gen_block(rw, profile=prof, length=L, pseudo=False, ending=rw.random() < 0.4)
    if rw.random() < 0.3:
        b = [("GAS", None)] + b          # split instruction first
    if rw.random() < 0.3:
        end = [b.pop()] if b and b[-1][0] in AJ.END_SET else []
        b = b + [("GAS", None)] + ([("GAS", None)] if rw.random() < 0.4 else []) + end   # last / consecutive
    return b


def positional_rebuild(rec):
    """Independent expectation for rebuild_optimized_asm_block from what it was given."""
    instrs = [tuple(x) for x in rec["instrs"]]
    subs = rec["sub_block_list"]
    opt = rec["optimized"]
    name = rec["block"]
    pre = []
    i = 0
    while i < len(instrs) and instrs[i][0] in AJ.BEGIN_SET:
        pre.append(instrs[i])
        i += 1
    body = [x for x in instrs[i:] if x[0] not in AJ.END_SET or True]
    out = list(pre)
    pos = i
    for k, sub in enumerate(subs):
        seg_len = len(sub) - (1 if k > 0 else 0) - (1 if k < len(subs) - 1 else 0)
        if k > 0:
            out.append(instrs[pos])          # the split instruction shared with the previous sub-block
            pos += 1
        seg = instrs[pos:pos + seg_len]
        pos += seg_len
        rep = opt.get("%s_%d" % (name, k))
        out.extend([tuple(x) for x in rep] if rep is not None else seg)
    out.extend(instrs[pos:])
    return out


def plain(it):
    n, v = it
    if n == "PUSH0":
        return "PUSH0"
    return n if v is None or "JUMP" in n else "%s %s" % (n, v)


def check_records(op, res, policy, summ, subset_desc):
    viols = []
    recs = res["records"]
    sfs_by_block = {}
    for s in recs.get("sfs", []):
        if not s["block"].startswith("alreadyOptimized_"):
            sfs_by_block.setdefault(s["block"], s)
    for rec in recs.get("rebuild", []):
        summ["evals"] += 1
        name = rec["block"]
        subs = rec["sub_block_list"]
        m = len(subs)
        if m >= 2:
            summ["keys"].append(digest([rec["instrs"], policy, sorted(k for k, v in rec["optimized"].items() if v is not None)]))
            summ["probes"]["blocks_with_%s_subblocks" % (m if m < 6 else "6+")] = 1 + summ["probes"].get("blocks_with_%s_subblocks" % (m if m < 6 else "6+"), 0)
        rp = {"op": op}
        s = sfs_by_block.get(name)
        if s is not None:
            # (a) join at the shared split instruction reproduces the optimizable sequence
            join = list(subs[0]) if subs else []
            ok_share = True
            for k in range(1, m):
                if not subs[k] or not subs[k - 1] or subs[k][0] != subs[k - 1][-1]:
                    ok_share = False
                join.extend(subs[k][1:])
            if not ok_share:
                viols.append({"class": ["partition", "no-shared-split", policy], "detail": "%s: consecutive sub-blocks do not share their split instruction: %r" % (name, subs), "replay": rp})
            elif join != s["to_optimize"]:
                viols.append({"class": ["partition", "join-differs", policy], "detail": "%s: join %r != optimizable %r" % (name, join, s["to_optimize"]), "replay": rp})
            # (b) every specification key names one reported sub-block
            inner = [list(x) for x in subs]
            for k in range(m - 1):
                inner[k] = inner[k][:-1]
                inner[k + 1] = inner[k + 1][1:]
            h = s["input"]
            heights = []
            for k in range(m):
                heights.append(h)
                try:
                    for ins in subs[k][(1 if k > 0 else 0):]:
                        toks = ins.split(" ")
                        nm = " ".join(toks[:-1]) if len(toks) > 1 and not toks[0].startswith("ASSIGN") and toks[0] != "tag" else toks[0]
                        if nm == "PUSH" or nm.startswith("PUSH") and nm not in evm.ARITY:
                            nm = "PUSH"
                        p, q = evm.arity(nm if nm in evm.ARITY else toks[0])
                        h += q - p
                except evm.Unsupported:
                    heights = None
                    break
            for key, spec in s["sfs"].items():
                if not key.startswith(name + "_") or not key[len(name) + 1:].isdigit():
                    viols.append({"class": ["spec-key", "foreign", policy], "detail": "%s: specification key %s" % (name, key), "replay": rp})
                    continue
                k = int(key[len(name) + 1:])
                if k >= m:
                    viols.append({"class": ["spec-key", "out-of-range", policy], "detail": "%s: key %s but %d sub-blocks" % (name, key, m), "replay": rp})
                    continue
                if spec["original_instrs"].split() != " ".join(inner[k]).split():
                    viols.append({"class": ["spec-key", "original-instrs", policy], "detail": "%s: original_instrs %r vs sub-block %r" % (
                        key, spec["original_instrs"], inner[k]), "replay": rp})
                # (c) source stack: at least what the sub-block's own instructions consume, at most what the
                #     previous sub-blocks (and the split instruction) leave
                try:
                    need_k = _need_of(inner[k])
                    left_k = _height_at(s["input"], subs, k)
                except evm.Unsupported:
                    continue
                n_src = len(spec["src_ws"])
                # (the front-end drops stack cells a sub-block leaves untouched, so a smaller source stack is
                #  legitimate -- an earlier version of this clause demanded equality and was a false alarm)
                if n_src > max(left_k, need_k):
                    viols.append({"class": ["src-stack-chain", "too-large", policy],
                                  "detail": "%s: |src_ws|=%d, its instructions need %d, the previous sub-blocks leave %d | subs %r" % (
                                      key, n_src, need_k, left_k, subs), "replay": rp})
        # (c') semantically: each sub-block's specification, evaluated from the stack the previous sub-blocks leave, must compute
        #      what the sub-block's own instructions compute (reference evaluator R3 against reference interpreter R1)
        if s is not None and subset_desc == "greedy":
            from gsim.checks import c02
            from gsim.ref import speceval as SE
            inner2 = [list(x) for x in subs]
            for k in range(m - 1):
                inner2[k] = inner2[k][:-1]
                inner2[k + 1] = inner2[k + 1][1:]
            for key, spec in s["sfs"].items():
                if not key.startswith(name + "_") or not key[len(name) + 1:].isdigit():
                    continue
                k = int(key[len(name) + 1:])
                if k >= m:
                    continue
                dummy = {"evals": 0, "keys": set(), "probes": {}}
                v = c02.check_spec(spec, SE.items_of_plain(inner2[k]), 1000 + k, 4, 2, dummy)
                summ["evals"] += dummy["evals"]
                if v is not None:
                    viols.append({"class": ["sub-block-spec"] + v[0][:2] + [policy], "detail": "%s: %s | sub-block %r" % (key, v[1], inner2[k]), "replay": rp})
        # (d) rebuild == independent positional rebuild
        exp = positional_rebuild(rec)
        got = [tuple(x) for x in rec["result"]]
        if exp != got:
            replaced = sorted(k for k, v in rec["optimized"].items() if v is not None)
            cls = ["rebuild", "identity" if not replaced else "segment", policy]
            viols.append({"class": cls, "detail": "%s: rebuild with replaced=%s gave %s, expected %s | subs %r" % (
                name, replaced, " ".join(plain(x) for x in got), " ".join(plain(x) for x in exp), subs), "replay": rp})
    return viols


def _name_of(ins):
    toks = ins.split(" ")
    nm = toks[0]
    if nm == "PUSH" and len(toks) > 2:
        nm = " ".join(toks[:2])
    return nm


def _need_of(instrs):
    return evm.stack_need_and_delta([(_name_of(i), None) for i in instrs])[0]


def _height_at(inp, subs, k):
    """Stack height where sub-block k's own instructions start (after its leading split instruction)."""
    h = inp
    for j in range(k + 1):
        seq = subs[j] if j == 0 else subs[j][1:]
        if j == k:
            seq = subs[j][:1] if j > 0 else []
            # the leading split instruction of sub-block k was the trailing one of k-1: already counted
            seq = []
        for ins in seq:
            toks = ins.split(" ")
            nm = toks[0]
            if nm == "PUSH" and len(toks) > 2:
                nm = " ".join(toks[:2])
            elif nm == "PUSH":
                nm = "PUSH"
            p, q = evm.arity(nm)
            h += q - p
    return h


def task(spec):
    i = spec["index"]
    rw = stream(spec["seed"], i, "workload")
    rp = stream(spec["seed"], i, "peer")
    policy = ["none", "-storage", "-partition"][i % 3]
    block = split_bait(rw, policy)
    flags = ([] if policy == "none" else [policy]) + rw.choice([[], ["-size"], ["-length"], ["-no-simplification"], ["-push0"]])
    summ = {"evals": 0, "keys": [], "probes": {}, "faults": {}, "sim_s": 0.0, "samples": [], "harness": 0, "inconclusive": 0}
    viols = []
    bug = {"record_rebuild": True, "record_sfs": True}

    def run(extra_flags, **kw):
        op = C.bl_op([block], flags + extra_flags, buggify=bug, **kw)
        op["fmt"] = "bl"
        st, res = C.run_child(op)
        return op, st, res
    # all succeed (greedy)
    op, st, res = run(["-greedy"])
    if st != "ok" or res["exc"] is not None:
        summ["inconclusive"] = 1
        return dict(summ, violations=[])
    summ["sim_s"] += res["sim_time"]
    viols += check_records(op, res, policy, summ, "greedy")
    recs = res["records"].get("rebuild", [])
    keys = []
    for s in res["records"].get("sfs", []):
        if not s["block"].startswith("alreadyOptimized_"):
            keys = sorted(s["sfs"].keys())
            break
    # all fail: emitted block must equal the input, item for item
    solver = ["-solver", "z3"]
    small_enough = all(len(x.split()) <= 60 for x in [AJ.items_to_text(block)])
    op2, st2, res2 = run(solver, peer_default={"kind": "no_model"}, peer_plan=[], cpu_s=120)
    if st2 == "ok" and res2["exc"] is None:
        summ["faults"]["peer_all_fail"] = summ["faults"].get("peer_all_fail", 0) + len(res2["solver_calls"])
        viols += check_records(op2, res2, policy, summ, "all-fail")
        pr = C.bl_pairs(op2, res2)
        if pr is not None:
            ins, outs = pr
            if [AJ.canon_items(x) for x in ins] != [AJ.canon_items(x) for x in outs]:
                viols.append({"class": ["identity", "all-fail", policy], "detail": "every solver call failed but the emitted block differs: in %s | out %s" % (
                    AJ.items_to_text(ins[0]), AJ.items_to_text(outs[0]) if outs else ""), "replay": {"op": op2}})
    # exactly k succeeds (sub-blocks small enough for the solver), and one seeded subset
    cand = [k for k in keys]
    rp.shuffle(cand)
    for key in cand[:5 if spec["tier"] == "quick" else 12]:
        op3, st3, res3 = run(solver, peer_default={"kind": "no_model"}, peer_plan=[], peer_by_block={key: {"kind": "optimal", "rlimit": 3000000}}, cpu_s=120)
        if st3 != "ok" or res3["exc"] is not None:
            summ["inconclusive"] += 1
            continue
        summ["faults"]["peer_exactly_one"] = summ["faults"].get("peer_exactly_one", 0) + 1
        viols += check_records(op3, res3, policy, summ, "only:" + key)
        for rec in res3["records"].get("rebuild", []):
            repl = [k for k, v in rec["optimized"].items() if v is not None]
            if any(k != key for k in repl):
                viols.append({"class": ["segment", "foreign-segment-replaced", policy], "detail": "only %s had a model but %r were replaced" % (key, repl),
                              "replay": {"op": op3}})
    if len(keys) >= 2:
        sub = {k: {"kind": "optimal", "rlimit": 3000000} for k in keys if rp.random() < 0.5}
        op4, st4, res4 = run(solver, peer_default={"kind": "unsat"}, peer_plan=[], peer_by_block=sub, cpu_s=120)
        if st4 == "ok" and res4["exc"] is None:
            summ["faults"]["peer_subset"] = summ["faults"].get("peer_subset", 0) + 1
            viols += check_records(op4, res4, policy, summ, "subset")
    viols += check_get_subblocks(AJ.items_to_text(block), flags, policy, summ)
    if not summ["samples"]:
        summ["samples"].append({"block": AJ.items_to_text(block), "flags": flags, "spec_keys": keys})
    # de-duplicate by class
    seen = set()
    out = []
    for v in viols:
        if tuple(v["class"]) not in seen:
            seen.add(tuple(v["class"]))
            out.append(v)
    summ["violations"] = out[:3]
    return summ


def check_get_subblocks(text, flags, policy, summ):
    """ir_block.get_subblocks (the other entry point that reports sub-blocks) must report what evm2rbr_compiler reports."""
    from gsim.core import pipe, procs
    st, recs = procs.run_sut(pipe.run_specs, {"argv": flags, "blocks": [text], "get_subblocks": True, "rebuild_probe": True}, cpu_s=120)
    if st != "ok" or not recs or "subs" not in recs[0]:
        return []
    rec = recs[0]
    summ["evals"] += 1
    rp = {"kind": "get_subblocks", "block": text, "flags": flags, "policy": policy}
    # rebuild driven with harness-chosen replacements (forall k, R of the property): nothing replaced is the identity, one or two
    # replaced sub-blocks change only their segments
    for r in rec.get("rebuild_probe", []):
        summ["evals"] += 1
        replaced = sorted(r["optimized"].keys())
        if "probes" in summ:
            summ["probes"]["rebuild_probe"] = 1 + summ["probes"].get("rebuild_probe", 0)
        if "exc" in r:
            return [{"class": ["rebuild-probe", "raises", policy], "detail": "rebuild with replaced=%s (%r) raised %s | block %s | flags %s" % (
                replaced, r["optimized"], r["exc"], text, " ".join(flags)), "replay": rp}]
        exp = positional_rebuild(r)
        got = [tuple(x) for x in r["result"]]
        if exp != got:
            return [{"class": ["rebuild-probe", "identity" if not replaced else "segment", policy],
                     "detail": "rebuild with %r gave %s, expected %s | block %s | flags %s" % (
                         r["optimized"], " ".join(plain(x) for x in got), " ".join(plain(x) for x in exp), text, " ".join(flags)), "replay": rp}]
    if "get_subblocks_exc" in rec:
        return [{"class": ["get_subblocks", "raises", policy], "detail": "get_subblocks raised %s | block %s | flags %s" % (
            rec["get_subblocks_exc"], text, " ".join(flags)), "replay": rp}]
    if rec.get("get_subblocks") != rec["subs"]:
        return [{"class": ["get_subblocks", "differs", policy], "detail": "get_subblocks reports %d sub-blocks %s, evm2rbr_compiler %d %s | block %s | flags %s" % (
            len(rec.get("get_subblocks") or []), [len(x) for x in rec.get("get_subblocks") or []], len(rec["subs"]), [len(x) for x in rec["subs"]],
            text, " ".join(flags)), "replay": rp}]
    return []


def replay(rp):
    if rp.get("kind") == "get_subblocks":
        summ = {"evals": 0}
        v = check_get_subblocks(rp["block"], rp["flags"], rp["policy"], summ)
        return v[0] if v else None
    op = rp["op"]
    st, res = C.run_child(op)
    if st != "ok" or res["exc"] is not None:
        return None
    policy = "-storage" if "-storage" in op["argv"] else "-partition" if "-partition" in op["argv"] else "none"
    summ = {"evals": 0, "keys": [], "probes": {}}
    v = check_records(op, res, policy, summ, "greedy" if "-greedy" in op["argv"] else "replay")
    return v[0] if v else None
