"""C08 -- optimization never makes a block costlier in the chosen criterion; printed totals are sums.

PIPE as in C01, with a solver peer biased towards replies that tempt the accept/reject logic
(non-optimal and cost-maximising models, no model / unsat with and without a greedy candidate,
greedy forced to fail).  Oracle: R4, the independent cost model.
"""
import json
import re

from gsim.checks import common as C
from gsim.core.prng import digest
from gsim.ref import asmjson as AJ
from gsim.ref import cost as R4

ID = "C08"
LEVEL = "exploration"
RULE = ("one evaluation = one (input block, emitted block) pair from a simulated run of the real CLI priced by the "
        "independent cost model R4 in gas, bytes and length; plus one evaluation per run for the printed totals; "
        "non-trivial = emitted block differs from its input (the accept/reject decision said 'accept'); distinct = digest of "
        "(input block, emitted block, criterion, PUSH0 flag)")
COMPONENTS = {"real": ["gasol_asm.execute_gasol and below (block_has_been_optimized, choose_best_solution, cost properties)",
                       "z3 4.8.12 binary as solver peer", "greedy back-end"],
              "stub": ["OptiMathSAT reply format", "SimFS", "SimClock"]}
ASSUMPTIONS = ["R4 transcribes the static fee schedule and solc byte sizes the README calls 'estimated'; every block starts cold; "
               "key identity is syntactic", "costs of dynamic parts (memory expansion, copy length) are out of scope by the property's own wording"]

TEMPT = ["non_optimal", "non_optimal", "skewed", "any_model", "no_model", "unsat", "optimal", "nth_model", "no_model_bounds"]


def plan(tier, seed, batch):
    if tier == "quick":
        if batch > 0:
            return []
        n = 380
    else:
        n = 1600
    return [{"index": batch * 100000 + i, "seed": seed, "tier": tier} for i in range(n)]


def tie_bait(rw):
    """Blocks in which the candidates differ in the secondary criteria only: a cheap (2-gas) environment opcode that is duplicated,
    next to a small constant that is reused through DUP -- recomputing the first saves gas, re-pushing the second costs a byte,
    the instruction count stays the same."""
    from gsim.work import blocks as B
    env = rw.choice(["CALLVALUE", "CALLER", "ADDRESS", "NUMBER", "TIMESTAMP", "CALLDATASIZE", "CHAINID", "GASPRICE"])
    c = rw.choice([0x20, 0x40, 0x4, 0xff, 0x100, 0xffff])
    items = [("PUSH", "%x" % c), (env, None), ("DUP1", None)]
    h = 3 + 5
    extra = []
    for _ in range(rw.choice([1, 2, 3])):
        if rw.random() < 0.5:
            extra.append(("DUP%d" % (len(items) + len(extra)), None))     # reaches the constant
        else:
            extra.append(("DUP%d" % rw.randrange(len(items) + len(extra) + 1, len(items) + len(extra) + 4), None))
    items += extra
    items.append((rw.choice(["ADD", "AND", "OR", "LT", "SUB", "MUL"]), None))
    if rw.random() < 0.4:
        items += [("SWAP1", None), ("POP", None)]
    return items


def build_op(spec):
    if spec["index"] % 6 == 5:
        from gsim.core.prng import stream
        from gsim.work import options as O
        rw = stream(spec["seed"], spec["index"], "workload")
        ro = stream(spec["seed"], spec["index"], "options")
        flags, desc = O.draw(ro, backend="-greedy")
        flags = [f for f in flags if f not in ("-size", "-length")]
        crit = rw.choice(["-length", "-length", "-size", None])
        if crit:
            flags.append(crit)
        desc["crit"] = crit.lstrip("-") if crit else "gas"
        bl = [tie_bait(rw) + [("PUSH", "%x" % rw.randrange(1, 200)), ("JUMP", None)] for _ in range(6)]
        op = C.bl_op(bl, flags)
        op["desc"] = desc
        op["fmt"] = "bl"
        return op
    op = C.build_pipe_op(spec, peer_kinds=TEMPT, mix=(4, 2, 4))
    for e in op.get("peer_plan", []):
        if e["kind"] == "skewed":
            e["mode"] = "maximise"
    if spec["index"] % 11 == 0 and "-greedy" in op["argv"]:
        op["buggify"] = {"greedy_fail": True}
    if op["fmt"] == "asm" and "-log" not in op["argv"]:
        op["argv"].append("-log")
    return op


TOT = {"gas0": r"Estimated initial gas: (-?\d+)", "gas1": r"Estimated gas optimized: (-?\d+)",
       "size0": r"Estimated initial size in bytes: (-?\d+)", "size1": r"Estimated size optimized in bytes: (-?\d+)",
       "len0": r"Initial number of instructions: (-?\d+)", "len1": r"Final number of instructions: (-?\d+)"}


def improves(c, *others):
    if c > 0:
        return True
    if c < 0:
        return False
    return all(o >= 0 for o in others) and any(o > 0 for o in others)


def gate(op, pairs, summ, how):
    """The per-block rule over aligned (input, emitted) blocks; returns (R4 totals, violations)."""
    desc = op["desc"]
    crit = desc["crit"]
    push0 = desc["push0"]
    viols = []
    tot = {"gas0": 0, "gas1": 0, "size0": 0, "size1": 0, "len0": 0, "len1": 0}
    for path, a, b in pairs:
        summ["evals"] += 1
        try:
            g0, s0, l0 = R4.block_costs(a, push0)
            g1, s1, l1 = R4.block_costs(b, push0)
        except Exception as e:     # unknown opcode in the output is C09's business
            summ["inconclusive"] += 1
            continue
        if path.count("/.data/") > 1:
            continue          # nested sub-assemblies are kept verbatim by the tool and are not part of its totals
        init = "/.data/" not in path and op["fmt"] != "bl"
        tot["gas0"] += g0
        tot["gas1"] += g1
        tot["len0"] += l0
        tot["len1"] += l1
        if not init:
            tot["size0"] += s0
            tot["size1"] += s1
        ca, cb = AJ.canon_items(a), AJ.canon_items(b)
        changed = [(n, None if n == "tag" else v) for n, v in ca] != [(n, None if n == "tag" else v) for n, v in cb]
        saved = {"gas": g0 - g1, "size": s0 - s1, "length": l0 - l1}
        cls = None
        if saved[crit] < 0:
            cls = ["costlier", crit]
        elif changed:
            others = [saved[k] for k in ("gas", "size", "length") if k != crit]
            if not improves(saved[crit], *others):
                cls = ["changed-without-improvement", crit,
                       "tie" if saved[crit] == 0 else "?", "others=%s" % ",".join("%+d" % -o for o in others)]
        if changed:
            summ["keys"].append(digest([ca, cb, crit, push0]))
            if not summ["samples"]:
                summ["samples"].append({"argv": op["argv"][1:], "in": AJ.items_to_text(a), "out": AJ.items_to_text(b),
                                        "saved": saved})
        if cls:
            if how != "direct":
                cls = cls + [how]
            viols.append({"class": cls + [desc["backend"]],
                          "detail": "%s (%s output): R4 (gas,size,len) in=%s out=%s | in: %s | out: %s | argv %s" % (
                              path, how, (g0, s0, l0), (g1, s1, l1), AJ.items_to_text(a), AJ.items_to_text(b), " ".join(op["argv"][1:])),
                          "replay": {"op": op, "block": path}})
    return tot, viols


def check_op(op):
    st, res = C.run_child(op)
    summ = {"evals": 0, "keys": [], "probes": {}, "faults": {}, "sim_s": 0.0, "samples": [], "harness": 0, "inconclusive": 0}
    if st != "ok" or res["exc"] is not None:
        summ["inconclusive"] = 1
        summ["probes"]["run_failed"] = 1
        return summ, []
    summ["sim_s"] = res["sim_time"]
    try:
        pairs = C.pairs_of(op, res)
    except ValueError:
        pairs = None
    if pairs is None:
        summ["inconclusive"] = 1
        return summ, []
    for c in res["solver_calls"]:
        summ["probes"]["peer_" + c["kind"]] = summ["probes"].get("peer_" + c["kind"], 0) + 1
    for bf in res["records"].get("buggify_fired", []):
        summ["faults"]["greedy_forced_error"] = summ["faults"].get("greedy_forced_error", 0) + 1
    tot, viols = gate(op, pairs, summ, "direct")
    if "-log" in op["argv"] and not viols:
        # second step of the history: the log of this run given back with the same input and options
        # is one more way of producing an output file, and its blocks are held to the same rule
        from gsim.checks import c11
        log = res["files"].get(C.log_path(op))
        if log is not None:
            files = dict(op["files"])
            files[C.log_path(op)] = log.decode()
            rop = c11.replay_op(op, files)
            st2, res2 = C.run_child(rop)
            if st2 == "ok" and res2["exc"] is None:
                try:
                    pairs2 = C.pairs_of(rop, res2)
                except ValueError:
                    pairs2 = None
                if pairs2 is not None:
                    summ["probes"]["log_replayed"] = 1
                    _, v2 = gate(op, pairs2, summ, "from-log")
                    viols.extend(v2)
    # printed totals
    if "-backend" not in op["argv"]:
        summ["evals"] += 1
        printed = {}
        for k, rx in TOT.items():
            m = re.search(rx, res["stdout"])
            printed[k] = int(m.group(1)) if m else None
        bad = [k for k in tot if printed[k] != tot[k]]
        if bad:
            viols.append({"class": ["totals", bad[0].rstrip("01"), op["fmt"]],
                          "detail": "printed %s but R4 sums over input/emitted file are %s | argv %s" % (
                              {k: printed[k] for k in bad}, {k: tot[k] for k in bad}, " ".join(op["argv"][1:])),
                          "replay": {"op": op, "block": "totals"}})
    return summ, viols


def task(spec):
    op = build_op(spec)
    summ, viols = check_op(op)
    summ["violations"] = viols[:3]
    return summ


def replay(rp):
    _, viols = check_op(rp["op"])
    return viols[0] if viols else None
