"""C06 -- every model of the Max-SMT encoding decodes to a realizing sequence.

The "for every model" of the statement is the solver's nondeterminism, which the simulator owns: for a
specification (real front-end) and an encoder option set (swarm over the 2^9 flags), the real
BlockOptimizer writes the problem and SimSolver plays several different peers against the same text --
optimal, any model under several seeds/phases, skewed objectives (random weights, maximise cost), and the
n-th model under blocking clauses.  Every reply is decoded by the repo's own reader and must be accepted
by R2 within init_progr_len and max_sk_sz.  Every .smt2 crossing the seam is checked by our own SMT-LIB
reader (declared once, used at declared arity and sort) and must be accepted by the real z3.
"""
from gsim.core import pipe, procs
from gsim.core.prng import stream, digest
from gsim.ref import asmjson as AJ
from gsim.ref import smtlib
from gsim.ref import symstack as R2
from gsim.work import blocks as B
from gsim.work import corpus
from gsim.work import options as O

ID = "C06"
LEVEL = "exploration"
RULE = ("one evaluation = one decoded solver reply (model) for one (specification, encoder option set), validated by the symbolic "
        "stack executor R2, plus one evaluation per emitted .smt2 text for well-formedness; models are sampled by seeded peers "
        "(optimal, arbitrary model under random phase, reweighted / cost-maximising objective, n-th model under blocking clauses, and a peer that "
        "asks for a model placing the second instruction of a declared dependency before the first); "
        "non-trivial = the decoded sequence differs from every sequence already seen for that specification; distinct = digest of "
        "(specification, option set, decoded sequence)")
COMPONENTS = {"real": ["front-end specification generation", "smt_encoding (FullEncoding, all constraint generators, serializer)",
                       "BlockOptimizer._rebuild_block_from_solver / get_value (model reader)", "z3 4.8.12 binary"],
              "stub": ["OptiMathSAT reply format (z3 model re-rendered) for -solver oms", "SimFS"]}
ASSUMPTIONS = ["models are sampled, not enumerated (up to 11 peers per instance)", "R2 is the definition of 'realizes'",
               "-push-basic is drawn rarely (known finding territory) and -terminal/-ac are excluded (marked UNSUPPORTED by the tool)"]

PEERS = [{"kind": "optimal"}, {"kind": "gives_up_once"}, {"kind": "refute_order"}, {"kind": "any_model", "seed": 1}, {"kind": "any_model", "seed": 2}, {"kind": "any_model", "seed": 5},
         {"kind": "skewed", "seed": 11, "mode": "random"}, {"kind": "skewed", "seed": 12, "mode": "maximise"},
         {"kind": "skewed", "seed": 13, "mode": "random"}, {"kind": "nth_model", "n": 1}, {"kind": "nth_model", "n": 2},
         {"kind": "nth_model", "n": 4}, {"kind": "non_optimal", "seed": 3}]


FAMILIES = [(t, e, m) for t in O.TERM_ENCODINGS for e in (False, True) for m in ("l_vars", "direct")]


def plan(tier, seed, batch):
    if tier == "quick":
        if batch > 0:
            return []
        n = 105
    else:
        n = 600
    return [{"index": batch * 100000 + i, "seed": seed, "tier": tier} for i in range(n)]


def gen_blocks(rw, n, conflict=False):
    out = []
    for _ in range(n):
        r = rw.random() if not conflict else 0.3
        if r < 0.2:
            b = corpus.sample_blocks(rw, 1, max_len=10)[0]
            b = [it for it in b if it[0] not in ("tag", "JUMPDEST")]
        elif r < 0.4:
            # conflict bait: two or three memory/storage accesses on stack operands, so that the ordering constraints
            # (not the data flow) are what keeps them in order
            b = []
            for _ in range(rw.choice([2, 2, 3])):
                b.append((rw.choice(["SSTORE", "MSTORE", "MSTORE8", "SSTORE", "MLOAD", "SLOAD"]), None))
                if b[-1][0] in ("MLOAD", "SLOAD"):
                    b.append((rw.choice(["SWAP1", "SWAP2", "POP"]), None))
            pre = [(rw.choice(["SWAP1", "SWAP2", "SWAP3", "SWAP3", "DUP2", "DUP1"]), None) for _ in range(rw.choice([0, 1, 2, 4, 4]))]
            if rw.random() < 0.5:
                # the prefix exchanges the operand pairs of two stores: the reversed order is then a short program too
                pre = [("SWAP2", None), ("SWAP1", None), ("SWAP3", None), ("SWAP1", None)]
                k = rw.choice(["SSTORE", "MSTORE", "MSTORE8"])
                b = [(k, None), (k if rw.random() < 0.7 else rw.choice(["MSTORE", "MSTORE8"]) if k != "SSTORE" else k, None)]
            b = pre + b
        else:
            b = B.gen_block(rw, length=rw.choice([2, 3, 4, 5, 6, 8]), depth=rw.choice([0, 1, 2, 3, 4]), pseudo=True,
                            ending=False, profile=rw.choice(["plain", "rules", "memory", "stack", "stack", "memory"]))
        out.append(b)
    return out


def build(spec):
    i = spec["index"]
    rw = stream(spec["seed"], i, "workload")
    ro = stream(spec["seed"], i, "options")
    flags = []
    split = ro.choice(["none", "none", "-storage", "-partition"])
    if split != "none":
        flags.append(split)
    crit = ro.choice(["gas", "-size", "-length"])
    if crit != "gas":
        flags.append(crit)
    if ro.random() < 0.25:
        flags.append("-no-simplification")
    if ro.random() < 0.3:
        flags.append("-push0")
    solver = ro.choice(["z3", "z3", "z3", "oms"])
    flags += ["-solver", solver] + O.encoder_flags(ro, allow_push_basic=False, p=0.3)
    if i % 25 == 7:
        flags.append("-push-basic")        # rarely: the whole option is a recorded finding (see known_findings.json)
    if i < len(FAMILIES):
        # deterministic sweep: every (term encoding, -empty, memory encoding) family is met in every run of the check, on blocks
        # with a store, a pushed value and an instruction of slack (models longer than the optimum exist)
        term, empty, memenc = FAMILIES[i]
        flags = [f for f in flags if f not in ("-empty",)]
        for opt in ("-term-encoding", "-memory-encoding"):
            while opt in flags:
                k = flags.index(opt)
                del flags[k:k + 2]
        flags += ["-term-encoding", term, "-memory-encoding", memenc] + (["-empty"] if empty else [])
        flags = [f for f in flags if f not in ("-storage", "-partition", "-push-basic")]
        blocks = []
        for _ in range(4):
            st = rw.choice(["MSTORE", "SSTORE", "MSTORE8"])
            b = [("PUSH", "%x" % rw.choice([8, 1, 0xff])), ("PUSH", "%x" % rw.choice([0, 0x20, 0x40])), (st, None)]
            b += rw.choice([[("PUSH", "5"), ("PUSH", "5"), ("POP", None)], [("PUSH", "7"), ("DUP1", None), ("POP", None)],
                            [("DUP1", None), ("PUSH", "3"), ("SWAP1", None), ("POP", None)], [("PUSH", "5"), ("PUSH", "6"), ("SWAP1", None), ("POP", None)]])
            blocks.append(b)
        quick = spec["tier"] == "quick"
        return {"argv": flags, "blocks": [AJ.items_to_text(b, 2) for b in blocks], "peers": PEERS[:9] if quick else PEERS,
                "max_len": 8 if quick else 12, "greedy": False}
    if len(FAMILIES) <= i < len(FAMILIES) + 8:
        # deterministic sweep over the *order shapes*: two order-dependent accesses whose second one finds its operands on top
        # of the initial stack (so the reversed order is a short program too), padded with neutral swaps so that the length bound
        # has room; with the position bounds enabled and disabled, both memory encodings
        k = i - len(FAMILIES)
        flags = [f for f in flags if f not in ("-storage", "-partition", "-push-basic", "-order-bounds", "-no-simplification")]
        while "-memory-encoding" in flags:
            j = flags.index("-memory-encoding")
            del flags[j:j + 2]
        flags += ["-memory-encoding", "direct" if k % 4 < 2 else "l_vars"] + (["-order-bounds"] if k % 2 == 0 else [])
        pad = [("SWAP1", None), ("SWAP1", None)]
        blocks = []
        for ld, st in (("MLOAD", "MSTORE"), ("MLOAD", "MSTORE8"), ("SLOAD", "SSTORE")):
            blocks.append([("SWAP2", None), (ld, None), ("SWAP2", None), (st, None)])                    # load, then a store on the top operands
            blocks.append(pad + [(st, None), (ld, None)] + pad)                                               # store, then a load
            blocks.append(pad + [(st, None), (st, None)] + pad)                                               # two stores
        blocks.append([("SWAP3", None), ("SWAP1", None), ("SWAP2", None), ("KECCAK256", None), ("SWAP2", None), ("MSTORE", None)])
        blocks.append(pad + [("MSTORE", None), ("KECCAK256", None)] + pad)
        quick = spec["tier"] == "quick"
        return {"argv": flags, "blocks": [AJ.items_to_text(b, 2) for b in blocks], "peers": PEERS[:9] if quick else PEERS,
                "max_len": 10 if quick else 12, "greedy": False}
    conflict = i % 3 == 1          # every third task: ordering-constraint bait, half of it with the position bounds disabled
    if conflict and i % 2 == 1 and "-order-bounds" not in flags:
        flags.append("-order-bounds")
    quick = spec["tier"] == "quick"
    peers = PEERS[:9] if quick else PEERS
    return {"argv": flags, "blocks": [AJ.items_to_text(b, 2) for b in gen_blocks(rw, 4, conflict)], "peers": peers,
            "max_len": 8 if quick else 12, "greedy": False}


def evaluate(op, recs, summ):
    viols = []
    for rec in recs:
        if "exc" in rec:
            summ["probes"]["frontend_raised"] = summ["probes"].get("frontend_raised", 0) + 1
            continue
        sfs = rec["sfs"]
        seen = set()
        rp = {"argv": op["argv"], "block": rec["block_text"], "key": rec["key"], "peers": op["peers"], "max_len": op["max_len"]}
        if rec["smt2"] is not None:
            summ["evals"] += 1
            probs = smtlib.check(rec["smt2"])
            if probs:
                viols.append({"class": ["smtlib", probs[0].split(":")[0], probs[0].split(" ")[1] if " " in probs[0] else ""],
                              "detail": "%s: emitted SMT-LIB text is not well formed: %s | flags %s" % (rec["key"], probs[:3], " ".join(op["argv"])),
                              "replay": rp})
        for r in rec["results"]:
            kind = r["peer"]["kind"]
            summ["probes"]["peer_" + kind] = summ["probes"].get("peer_" + kind, 0) + 1
            qs = r.get("queries") or []
            if len(qs) > 1:
                summ["probes"]["problems_asked_twice"] = summ["probes"].get("problems_asked_twice", 0) + 1
            if qs and any(q[1] != qs[0][1] for q in qs):
                viols.append({"class": ["problem-text", "queries-differ", kind],
                              "detail": "%s: the solver was asked %d times about the same problem with %s assertions (soft %s) | flags %s" % (
                                  rec["key"], len(qs), [q[1] for q in qs], [q[2] for q in qs], " ".join(op["argv"])), "replay": rp})
                continue
            if r.get("z3_error"):
                viols.append({"class": ["smtlib", "rejected-by-z3"], "detail": "%s: z3 reports an error for the emitted text | flags %s" % (
                    rec["key"], " ".join(op["argv"])), "replay": rp})
                continue
            if r["exc"] is not None:
                summ["probes"]["encoder_or_reader_raised"] = summ["probes"].get("encoder_or_reader_raised", 0) + 1
                viols.append({"class": ["raises", r["exc"].split(":")[0], str(r.get("frame"))],
                              "detail": "%s: encoding/solving/decoding raised %s | peer %s | flags %s | sub-block %s" % (
                                  rec["key"], r["exc"], kind, " ".join(op["argv"]), rec["sub_block"]), "replay": rp})
                continue
            if r["outcome"] in ("no_model", "unsat"):
                summ["probes"]["outcome_" + r["outcome"]] = summ["probes"].get("outcome_" + r["outcome"], 0) + 1
                if r["outcome"] == "unsat" and kind in ("optimal", "any_model"):
                    # the original sequence is a witness within init_progr_len unless rules shortened the bound: C07/C16 decide
                    summ["probes"]["unsat_instances"] = summ["probes"].get("unsat_instances", 0) + 1
                continue
            ids = r["ids"]
            summ["evals"] += 1
            v = R2.realizes(sfs, ids, max_len=sfs["init_progr_len"], max_height=sfs["max_sk_sz"])
            t = tuple(ids)
            if t not in seen:
                seen.add(t)
                summ["keys"].append(digest([rec["key"], sfs["user_instrs"], sfs["tgt_ws"], op["argv"], ids]))
            if not v.ok:
                viols.append({"class": ["model-not-realizing", v.kind, enc_signature(op["argv"])],
                              "detail": "%s: decoded model %s does not realize the specification: %s | peer %s | flags %s | sub-block %s" % (
                                  rec["key"], " ".join(ids), v.detail, kind, " ".join(op["argv"]), rec["sub_block"]), "replay": rp})
        if not summ["samples"] and rec["results"]:
            summ["samples"].append({"flags": op["argv"], "sub_block": rec["sub_block"],
                                    "models": [" ".join(r["ids"]) for r in rec["results"] if r["ids"]][:3]})
    return viols


def enc_signature(argv):
    keep = [a for a in argv if a in ("-empty", "-pop-uninterpreted", "-order-bounds", "-order-conflicts", "-at-most", "-pushed-once",
                                     "-no-output-before-pop", "-push-basic", "l_vars", "int", "stack_vars", "uninterpreted_int")]
    return "+".join(keep) or "default"


def task(spec):
    op = build(spec)
    summ = {"evals": 0, "keys": [], "probes": {}, "faults": {}, "sim_s": 0.0, "samples": [], "harness": 0, "inconclusive": 0}
    st, recs = procs.run_sut(pipe.run_solve, op, cpu_s=300)
    if st != "ok":
        summ["inconclusive"] = 1
        summ["probes"]["run_" + st] = 1
        return dict(summ, violations=[])
    viols = evaluate(op, recs, summ)
    if "-push-basic" in op["argv"]:
        for v in viols:
            v["class"] = ["push-basic"] + v["class"][:2]
    seen = set()
    out = []
    for v in viols:
        if tuple(v["class"]) not in seen:
            seen.add(tuple(v["class"]))
            out.append(v)
    summ["violations"] = out[:3]
    return summ


def replay(rp):
    op = {"argv": rp["argv"], "blocks": [rp["block"]], "peers": rp["peers"], "max_len": rp["max_len"], "greedy": False}
    st, recs = procs.run_sut(pipe.run_solve, op, cpu_s=300)
    if st != "ok":
        return None
    summ = {"evals": 0, "keys": [], "probes": {}, "samples": []}
    v = evaluate(op, recs, summ)
    if v and "-push-basic" in op["argv"]:
        v[0]["class"] = ["push-basic"] + v[0]["class"][:2]
    return v[0] if v else None
