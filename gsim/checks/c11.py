"""C11 -- log replay reproduces the optimized code and rejects tampered logs.

Ops: Optimize(-log) -> [crash | tamper] -> Restart -> Replay / Optimize.
 (1) fidelity: Replay(log) output == Optimize output, byte for byte (greedy and solver peers of every honest kind);
 (2) crash points: the first run is killed (or loses power) at an I/O event between the first write of the
     log and the close of the output file; only the durable image survives.  Replay from the surviving log
     either stops with an error or emits exactly the crash-free output (intact log) / code equivalent to the
     input; a fresh Optimize on the image reproduces the crash-free output whatever the dead run left behind;
 (3) tampering: id substitution, deletion, duplication, permutation, insertion of ids from other blocks,
     swapped/renamed block keys, a stale log from another run, truncation and single-bit flips on the
     stored bytes; Replay must end in an error or emit a file every block of which is R1-equivalent to the input.
"""
import json

from gsim.checks import common as C
from gsim.core.prng import stream, digest
from gsim.ref import asmjson as AJ
from gsim.work import blocks as B
from gsim.work import contracts as CT
from gsim.work import corpus
from gsim.work import options as O
from gsim.work import tamper as T

ID = "C11"
LEVEL = "fault_enumeration"
RULE = ("one evaluation = one Replay (or re-Optimize) op executed on what a previous op left on the simulated disk: the intact log "
        "(fidelity), the durable image after a kill/power-loss at a placed I/O event inside the log/output write window, or a log "
        "tampered by one seeded operator; non-trivial = the log names at least one optimised sub-block and (for crash/tamper cases) "
        "the fault actually changed the stored log or landed inside the window; distinct = digest of (input, option set, crash "
        "point+kind | tamper result)")
COMPONENTS = {"real": ["gasol_asm.execute_gasol (optimize and -optimize-from-log paths) and below", "greedy", "z3 4.8.12 peer"],
              "stub": ["SimFS durable-image model (kill: flushed 8 KiB prefix or arbitrary prefix of open files; power loss: unsynced files "
                       "may be empty or truncated)", "SimClock", "OptiMathSAT reply format"]}
ASSUMPTIONS = ["R1 equivalence on sampled states decides 'equivalent to the input' for tampered logs",
               "crash points are sampled inside the window in the quick tier and enumerated (every event) in the thorough tier for small inputs",
               "the tool never syncs, so the power-loss image may lose any file content written by the dead run"]


def plan(tier, seed, batch):
    if tier == "quick":
        if batch > 0:
            return []
        n = 96
    else:
        n = 500
    return [{"index": batch * 100000 + i, "seed": seed, "tier": tier} for i in range(n)]


def repeated_subblocks(rw):
    a, b = rw.sample([1, 2, 3], 2)
    f = rw.choice(["ADD", "SUB", "AND", "OR", "XOR", "MUL"])
    neutral = rw.choice([[("PUSH", "0"), ("ADD", None)], [("PUSH", "1"), ("MUL", None)], [("PUSH", "0"), ("OR", None)], [("PUSH", "0"), ("XOR", None)]])
    seg = [("DUP%d" % a, None), ("DUP%d" % (b + 1), None), (f, None)] + neutral + [("PUSH", "0"), ("PUSH", "0"), ("LOG1", None)]
    return seg * rw.choice([2, 2, 3]) + [("STOP", None)]


def base_op(spec):
    i = spec["index"]
    rw = stream(spec["seed"], i, "workload")
    ro = stream(spec["seed"], i, "options")
    rp = stream(spec["seed"], i, "peer")
    backend = "-greedy" if i % 4 else rw.choice(["solver", "-ub-greedy"])
    flags, desc = O.draw(ro, backend=backend)
    small = backend != "-greedy"
    if i % 3 == 0:
        doc, src = corpus.window_doc(rw, nblocks=4 if small else 10)
    else:
        doc = CT.gen_combined(rw, ncontracts=rw.choice([1, 2]), nblocks_init=1, nblocks_run=2 if small else 5,
                              block_kw={"length": 7 if small else None})
    if i % 8 == 3:
        # a block that repeats the same optimizable code in consecutive sub-blocks (two identical event emissions): what a
        # checker remembers from one sub-block must not leak into the next (task() tampers the later entries)
        doc = CT.gen_combined(rw, ncontracts=1, nblocks_init=1, nblocks_run=2, blocks=[
            B.gen_block(rw, ending=True, pseudo=False, length=4), repeated_subblocks(rw), B.gen_block(rw, ending=True, pseudo=False, length=5)])
    if i % 5 == 1:
        # a block whose analysis is impossible: it stays as it is in the direct run, so it has to stay in the replay too
        CT.inject_unanalysable(doc, stream(spec["seed"], i, "unanalysable"))
    op = C.asm_op(doc, flags + ["-log"])
    op["fmt"] = "asm"
    op["desc"] = desc
    if small:
        op["peer_plan"] = C.peer_plan(rp, 16)
        op["cpu_s"] = 200
        if stream(spec["seed"], i, "byzantine").random() < 0.5:
            # a reply-corrupting solver peer in the base run: sequences the checker rejects must stay out of the log,
            # so that the log of a run with contained failures still replays to the same output
            op["solver_mutator"] = {"seed": i, "calls": None}
    return op


def replay_op(op, files):
    """Replay op on a given disk image (input + whatever log survived)."""
    argv = [a for a in op["argv"] if a != "-log"] + ["-optimize-from-log", C.log_path(op)]
    r = {"files": dict(files), "argv": argv, "env": dict(op.get("env", {})), "fmt": "asm", "desc": op["desc"],
         "size_hint": op.get("size_hint", 50), "cpu_s": op.get("cpu_s", 60)}
    return r


def replay_outcome(rop, res_status, res):
    """('error', why) | ('output', bytes)"""
    if res_status != "ok":
        return ("error", "child " + res_status)
    out = res["files"].get(C.output_path(rop))
    if res["exc"] is not None:
        return ("error", res["exc"]["type"]) if out is None else ("error+output", out)
    if res["exit"] not in (None, 0):
        return ("error", "exit %r" % res["exit"])
    if out is None:
        return ("error", "no output")
    return ("output", out)


def all_blocks_equivalent(in_text, out_bytes, seed):
    in_doc = json.loads(in_text)
    try:
        out_doc = json.loads(out_bytes.decode())
        pairs = C.doc_block_pairs(in_doc, out_doc)
    except (ValueError, KeyError) as e:
        return ("skeleton", str(e)[:200])
    for path, a, b in pairs:
        d = C.equiv(a, b, seed, 10)
        if d is not None:
            return (d[0], "%s: %s | in: %s | out: %s" % (path, d[1], AJ.items_to_text(a)[:300], AJ.items_to_text(b)[:300]))
    return None


def run_case(op, choose_crash, choose_tampers, summ, oracle_seed, phases=("fidelity", "crash", "tamper")):
    """One base Optimize(-log) run followed by the chosen follow-up ops.  `choose_crash(window)` returns a list of
    crash ops settings [(event, kind, crash_seed, tmp_name)], `choose_tampers(log_text)` a list of (tampered text, operator).
    Used by task() with seeded choices and by replay() with the explicit ones recorded in the replay file."""
    viols = []
    st, res = C.run_child({k: v for k, v in op.items() if not k.startswith("crash")})
    if st != "ok" or res["exc"] is not None:
        summ["inconclusive"] += 1
        return viols
    inp = op["argv"][0]
    logp, outp = C.log_path(op), C.output_path(op)
    log = res["files"].get(logp)
    out = res["files"].get(outp)
    if log is None or out is None:
        summ["inconclusive"] += 1
        return viols
    summ["sim_s"] += res["sim_time"]
    nlog = len(json.loads(log.decode()))
    base_files = {inp: op["files"][inp]}
    summ["probes"]["log_entries"] = summ["probes"].get("log_entries", 0) + nlog
    if '"MCOPY"' in op["files"][inp]:
        summ["probes"]["base_run_with_unanalysable_block"] = summ["probes"].get("base_run_with_unanalysable_block", 0) + 1
    if op.get("solver_mutator"):
        nm = len(res["records"].get("reply_mutations", []))
        summ["faults"]["reply_corrupted"] = summ["faults"].get("reply_corrupted", 0) + nm
        nrej = res["stdout"].count("Comparison failed, so initial block is kept")
        summ["probes"]["base_run_rejected_blocks"] = summ["probes"].get("base_run_rejected_blocks", 0) + nrej
    # (1) fidelity
    if "fidelity" in phases:
        rop = replay_op(op, dict(base_files, **{logp: log}))
        st2, res2 = C.run_child(rop)
        oc = replay_outcome(rop, st2, res2)
        summ["evals"] += 1
        if nlog:
            summ["keys"].append(digest([op["files"], op["argv"], "fidelity"]))
        if oc[0] != "output" or oc[1] != out:
            why = oc[1] if oc[0] == "error" else "output differs"
            cls = ["fidelity", "error" if oc[0].startswith("error") else "diff", op["desc"]["backend"]]
            if oc[0].startswith("error") and res2 and res2.get("exc"):
                cls.append(res2["exc"]["type"])
            viols.append({"class": cls, "detail": "replay of the intact log: %s | argv %s" % (
                str(why)[:200] + (" " + res2["exc"]["msg"][:200] if res2 and res2.get("exc") else ""), " ".join(op["argv"][1:])),
                "replay": {"kind": "fidelity", "op": op}})
    # (2) crash points inside the write window
    ev = res["events"]
    s0 = next((s for s, k, key, _ in ev if k == "open_w" and key == logp), None)
    s1 = next((s for s, k, key, _ in ev if k == "close_w" and key == outp), None)
    if "crash" in phases and s0 is not None and s1 is not None:
        for cp, kind, cseed, tmpname in choose_crash(list(range(s0, s1 + 2))):
            cop = dict(op)
            cop.update({"crash_at": cp, "crash_kind": kind, "crash_seed": cseed})
            if tmpname:
                cop["env"] = dict(op.get("env", {}), tmp_name=tmpname)
            stc, resc = C.run_child(cop)
            if stc != "ok" or not resc.get("crashed"):
                summ["probes"]["crash_not_reached"] = summ["probes"].get("crash_not_reached", 0) + 1
                continue
            summ["faults"]["crash_" + kind] = summ["faults"].get("crash_" + kind, 0) + 1
            image = {p: d for p, d in resc["files"].items()}
            slog = image.get(logp)
            state = "missing" if slog is None else "intact" if slog == log else "empty" if slog == b"" else "partial"
            summ["probes"]["survivor_log_" + state] = summ["probes"].get("survivor_log_" + state, 0) + 1
            rfiles = dict(base_files)
            if slog is not None:
                rfiles[logp] = slog
            for p, d in image.items():
                if p.startswith("/sim/tmp/") or p.startswith("/sim/cwd/"):
                    rfiles.setdefault(p, d)
            rop = replay_op(op, rfiles)
            st3, res3 = C.run_child(rop)
            oc = replay_outcome(rop, st3, res3)
            summ["evals"] += 1
            summ["keys"].append(digest([op["files"], op["argv"], cp, kind]))
            crp = {"kind": "crash", "op": op, "crash": [cp, kind, cseed, tmpname]}
            bad = None
            if oc[0] == "output":
                if state == "intact":
                    if oc[1] != out:
                        bad = ("crash-replay-diff", "replay from the intact surviving log differs from the crash-free output")
                else:
                    d = all_blocks_equivalent(op["files"][inp], oc[1], oracle_seed + cp)
                    if d is not None:
                        bad = ("crash-replay-wrong-code:" + d[0], "replay from a %s log emitted non-equivalent code: %s" % (state, d[1]))
            elif oc[0] == "error+output":
                bad = ("crash-replay-error-with-output", "replay raised but still wrote an output file")
            elif state == "intact":
                bad = ("crash-replay-error", "replay from the intact surviving log failed: %s" % oc[1])
            if bad:
                viols.append({"class": [bad[0], kind, state], "detail": "%s | crash at event %d (%s %s) | argv %s" % (
                    bad[1], cp, resc["crashed"]["at_kind"], resc["crashed"]["at_key"], " ".join(op["argv"][1:])), "replay": crp})
            oop = dict(op)
            oop["files"] = rfiles
            st4, res4 = C.run_child(oop)
            summ["evals"] += 1
            if st4 != "ok" or res4["exc"] is not None or res4["files"].get(outp) != out or res4["files"].get(logp) != log:
                why = st4 if st4 != "ok" else (res4["exc"]["type"] if res4["exc"] else "output or log differs")
                viols.append({"class": ["reoptimize-after-crash", kind, str(why)], "detail": "Optimize on the image left by a %s at event %d: %s" % (
                    kind, cp, why), "replay": crp})
    # (3) tampering
    if "tamper" in phases and nlog:
        for t, (tl, opname) in enumerate(choose_tampers(log.decode())):
            if tl.encode("latin-1") == log:
                continue
            rop = replay_op(op, dict(base_files, **{logp: tl.encode("latin-1")}))
            st5, res5 = C.run_child(rop)
            oc = replay_outcome(rop, st5, res5)
            summ["evals"] += 1
            summ["faults"]["tamper_" + opname.split(":")[0]] = summ["faults"].get("tamper_" + opname.split(":")[0], 0) + 1
            summ["keys"].append(digest([op["files"], op["argv"], tl]))
            trp = {"kind": "tamper", "op": op, "log": tl, "opname": opname, "seed": oracle_seed}
            if oc[0] == "output":
                summ["probes"]["tampered_log_accepted"] = summ["probes"].get("tampered_log_accepted", 0) + 1
                d = all_blocks_equivalent(op["files"][inp], oc[1], oracle_seed)
                if d is not None:
                    viols.append({"class": ["tamper-accepted", opname, d[0]], "detail": "tampered log (%s) accepted and non-equivalent code emitted: %s | argv %s" % (
                        opname, d[1], " ".join(op["argv"][1:])), "replay": trp})
            elif oc[0] == "error+output":
                viols.append({"class": ["tamper-error-with-output", opname], "detail": "replay raised but wrote an output file", "replay": trp})
            else:
                summ["probes"]["tampered_log_rejected"] = summ["probes"].get("tampered_log_rejected", 0) + 1
    if not summ["samples"]:
        summ["samples"].append({"argv": op["argv"][1:], "log_entries": nlog})
    return viols


def task(spec):
    summ = {"evals": 0, "keys": [], "probes": {}, "faults": {}, "sim_s": 0.0, "samples": [], "harness": 0, "inconclusive": 0}
    op = base_op(spec)
    i = spec["index"]
    rc = stream(spec["seed"], i, "crash")
    rt = stream(spec["seed"], i, "tamper")

    def choose_crash(window):
        # crash runs re-execute the whole optimisation up to the crash point: only greedy bases (no solver calls) in the quick tier
        if not (op["desc"]["backend"] == "-greedy" or spec["tier"] == "thorough"):
            return []
        s0, s1 = window[0], window[-1] - 1
        if spec["tier"] == "quick" or len(window) > 400:
            pts = sorted(set([rc.choice([s0, s0 + 1]), rc.choice([s1, s1 + 1])] + [rc.choice(window) for _ in range(3)]))
        else:
            pts = window
        return [(cp, rc.choice(["kill", "powerloss"]), rc.randrange(1 << 30), "dead" if rc.random() < 0.5 else None) for cp in pts]

    def choose_tampers(log_text):
        out = list(T.targeted_tampers(log_text))          # deterministic: the operands of the first stores
        out += T.later_subblock_tampers(log_text, limit=10 if i % 8 == 3 else 2)
        for _ in range(5 if spec["tier"] == "quick" else 12):
            out.append(T.tamper_log(rt, log_text, []))
        return out
    viols = run_case(op, choose_crash, choose_tampers, summ, spec["seed"] * 7 + i)
    summ["violations"] = viols[:3]
    return summ


def replay(rp):
    summ = {"evals": 0, "keys": [], "probes": {}, "faults": {}, "sim_s": 0.0, "samples": [], "harness": 0, "inconclusive": 0}
    op = rp["op"]
    if rp["kind"] == "fidelity":
        v = run_case(op, lambda w: [], lambda l: [], summ, 0, phases=("fidelity",))
    elif rp["kind"] == "crash":
        v = run_case(op, lambda w: [tuple(rp["crash"])], lambda l: [], summ, rp.get("seed", 0), phases=("crash",))
    else:
        v = run_case(op, lambda w: [], lambda l: [(rp["log"], rp.get("opname", "?"))], summ, rp.get("seed", 0), phases=("tamper",))
    return v[0] if v else None
