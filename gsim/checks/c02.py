"""C02 -- the specification denotes the block under every admissible schedule.

The schedule quantifier is literal here: every run is one seeded linearisation of the specification's
operations that respects only the declared ordering constraints and data flow (policies: uniform,
reverse program order, stores first, loads first, depth first), plus *targeted* two-order schedules
for every unordered pair of accesses (at least one store) whose byte ranges / keys collide on the
concrete state.  Oracle: R1 executing the sub-block's original instructions from the same state.
"""
import json
import random

from gsim.core import pipe, procs
from gsim.core.prng import stream, digest
from gsim.ref import asmjson as AJ
from gsim.ref import evm
from gsim.ref import speceval as SE
from gsim.work import blocks as B
from gsim.work import corpus

ID = "C02"
LEVEL = "exploration"
RULE = ("one evaluation = one (specification, machine state, schedule) triple: the real front-end's specification of a sub-block is "
        "executed by the reference evaluator R3 under a seeded linearisation of its operations and compared with the reference "
        "interpreter R1 running the sub-block's original instructions; non-trivial = the specification has at least two memory/storage/"
        "hash operations (so that more than one schedule exists or forwarding/dead-store rules could fire); distinct = digest of "
        "(specification, schedule)")
COMPONENTS = {"real": ["ir_block.evm2rbr_compiler, gasol_optimization (symbolic execution, rules, memory simplification, dependency generation, "
                       "splitting)"], "stub": ["SimFS (intermediate files)", "no solver, no back-end: the consumer of the specification is the simulator's scheduler"]}
ASSUMPTIONS = ["R1/R3 share the instruction semantics of gsim/ref/evm.py", "states sampled with harvested constants so that symbolic and constant "
               "addresses collide; memory offsets do not wrap modulo 2^256"]
POLICIES = ["uniform", "reverse", "stores_first", "loads_first", "depth_first"]


def plan(tier, seed, batch):
    if tier == "quick":
        if batch > 0:
            return []
        n = 1600
    else:
        n = 6000
    return [{"index": batch * 100000 + i, "seed": seed, "tier": tier} for i in range(n)]


def make_policy(name, rng, spec):
    pos = {i: k for k, i in enumerate(spec.order)}
    is_store = lambda i: spec.instrs[i]["disasm"] in ("MSTORE", "MSTORE8", "SSTORE")
    is_load = lambda i: spec.instrs[i]["disasm"] in ("MLOAD", "SLOAD", "KECCAK256", "SHA3")

    def f(enabled, done):
        if name == "uniform":
            return rng.choice(enabled)
        if name == "reverse":
            return max(enabled, key=lambda i: pos[i])
        if name == "stores_first":
            s = [i for i in enabled if is_store(i)]
            return rng.choice(s) if s else rng.choice(enabled)
        if name == "loads_first":
            s = [i for i in enabled if is_load(i)]
            return rng.choice(s) if s else rng.choice(enabled)
        # depth first: prefer a task that consumes the most recently produced value
        if done:
            last = spec.instrs[done[-1]]["outpt_sk"]
            s = [i for i in enabled if any(v in last for v in spec.instrs[i]["inpt_sk"] if isinstance(v, str))]
            if s:
                return s[0]
        return enabled[0]
    return f


def first_diff(r_spec, r_ref):
    return evm.first_difference(r_ref, r_spec)


def check_spec(sfs, orig_items, seed, n_states, n_sched, summ):
    """Returns a violation (class, detail, replay extras) or None."""
    try:
        spec = SE.Spec(sfs)
    except SE.SpecError as e:
        return (["malformed-spec"], str(e), {})
    try:
        need, _ = evm.stack_need_and_delta(orig_items)
    except evm.Unsupported:
        return None
    depth = max(need, len(spec.src))
    rng = random.Random(seed)
    states = evm.make_states(rng, depth, n_states, evm.harvest_constants(orig_items))
    nmem = sum(1 for u in spec.instrs.values() if u["disasm"] in ("MLOAD", "MSTORE", "MSTORE8", "SLOAD", "SSTORE", "KECCAK256", "SHA3"))
    for st in states:
        ref = evm.execute(orig_items, st)
        if ref.error:
            continue
        for k in range(n_sched):
            pol = POLICIES[k % len(POLICIES)] if k else "uniform"
            try:
                res, acc, sched = SE.run_schedule(spec, st, make_policy(pol, rng, spec))
            except SE.SpecError as e:
                return (["malformed-spec", str(e).split(" ")[0]], str(e), {"state": st.to_json()})
            summ["evals"] += 1
            if nmem >= 2:
                summ["keys"].add(digest([sfs["user_instrs"], sfs["tgt_ws"], sfs["dependencies"], sched]))
            d = first_diff(res, ref)
            if d is not None:
                return classify(spec, d, acc, sched, st, None)
            # targeted schedules for colliding unordered pairs
            if k == 0:
                for (a, b) in SE.colliding_unordered_pairs(spec, acc)[:4]:
                    summ["probes"]["colliding_unordered_pair"] = summ["probes"].get("colliding_unordered_pair", 0) + 1
                    outs = []
                    for edge in ((a, b), (b, a)):
                        try:
                            r2, acc2, sched2 = SE.run_schedule(spec, st, make_policy("uniform", rng, spec), extra_edges=[edge])
                        except SE.SpecError:
                            continue
                        summ["evals"] += 1
                        outs.append((r2, sched2))
                        d = first_diff(r2, ref)
                        if d is not None:
                            return classify(spec, d, acc2, sched2, st, (a, b))
            if nmem < 2 and k >= 1:
                break
    return None


def addr_shape(spec, i):
    u = spec.instrs[i]
    a = u["inpt_sk"][0]
    if not isinstance(a, str):
        return "const"
    return "var" if a in spec.src else "expr"


def classify(spec, d, acc, sched, st, pair):
    if pair is not None:
        a, b = pair
        kinds = sorted([spec.instrs[a]["disasm"].lower(), spec.instrs[b]["disasm"].lower()])
        shapes = sorted([addr_shape(spec, a), addr_shape(spec, b)])
        cls = ["unordered-colliding-pair"] + kinds + ["/".join(shapes)]
        detail = "swapping the unordered pair %s,%s changes the outcome (%s): %s" % (a, b, d[0], d[1])
    else:
        cls = ["spec-differs", d[0]]
        detail = "specification evaluates differently from the block (%s): %s" % (d[0], d[1])
    return (cls, detail, {"state": st.to_json(), "schedule": sched})


def gen_block(rw, small=False):
    r = rw.random()
    if r < 0.2:
        b = corpus.sample_blocks(rw, 1, max_len=30)[0]
        return [it for it in b if it[0] not in ("tag", "JUMPDEST")]
    prof = rw.choice(["memory", "memory", "memory", "rules", "plain", "split"])
    return B.gen_block(rw, profile=prof, pseudo=True, ending=rw.random() < 0.2)


def rule_name(r):
    r = str(r)
    if r.startswith("EVAL"):
        return "EVAL"
    import re
    if re.match(r"^[A-Z0-9]+\(", r):
        return r[:28]
    if "useless" in r:
        return "memory:store-useless"
    if ")=" in r or "= (" in r:
        return "memory:load=store"
    return "memory:other"


ENUM_VOCAB = [("PUSH", "0"), ("PUSH", "1"), ("PUSH", "20"), ("DUP1", None), ("DUP2", None), ("SWAP1", None), ("POP", None), ("ADD", None),
              ("SUB", None), ("MUL", None), ("XOR", None), ("ISZERO", None), ("MSTORE", None), ("MSTORE8", None), ("MLOAD", None),
              ("SLOAD", None), ("SSTORE", None), ("KECCAK256", None), ("AND", None)]
ENUM_MEM = [("MSTORE", None), ("MSTORE8", None), ("MLOAD", None), ("SLOAD", None), ("SSTORE", None), ("DUP1", None), ("DUP2", None),
            ("SWAP1", None), ("KECCAK256", None)]
ENUM_FLAGS = [[], ["-no-simplification"], ["-pop-uninterpreted"]]
ENUM_TASKS = len(ENUM_VOCAB) * len(ENUM_FLAGS) + len(ENUM_MEM) + 3


def const_interval_blocks(k):
    """Constant-address interval sweep: pairs of accesses whose byte ranges are constants around the 32-byte boundaries
    (hash ranges against stores of small and large constants, loads against stores, stores against stores), in both orders."""
    P = lambda v: ("PUSH", "%x" % v)
    offs = [0, 1, 0x1f, 0x20, 0x21, 0x3f, 0x40]
    out = []
    if k == 0:
        for ho in (0, 0x20):
            for hl in (0x20, 0x40, 0x41):
                for so in (0, 0x1f, 0x20, 0x3f, 0x40, 0x5f, 0x60):
                    for val in (0, 1, 0x20, 0x40, (1 << 256) - 1):
                        for st in ("MSTORE", "MSTORE8"):
                            h = [P(hl), P(ho), ("KECCAK256", None)]
                            w = [P(val), P(so), (st, None)]
                            out.append(h + w)
                            out.append(w + h)
    elif k == 1:
        for a in offs:
            for b in offs:
                for st in ("MSTORE", "MSTORE8"):
                    ld = [P(a), ("MLOAD", None)]
                    w = [("DUP2", None), P(b), (st, None)]
                    out.append(ld + w)
                    out.append(w + ld)
                    out.append(ld + [("DUP3", None), P(b), (st, None)] + [P(a), ("MLOAD", None)])
    else:
        for a in offs:
            for b in offs:
                for s1, s2 in (("MSTORE", "MSTORE"), ("MSTORE", "MSTORE8"), ("MSTORE8", "MSTORE"), ("MSTORE8", "MSTORE8")):
                    out.append([("DUP1", None), P(a), (s1, None), ("DUP2", None), P(b), (s2, None)])
                    out.append([("DUP1", None), P(a), (s1, None), ("DUP2", None), P(b), (s2, None), P(a), ("MLOAD", None)])
    return out


def enum_blocks(i):
    """Small-scope sweep: all blocks of <= 3 instructions over ENUM_VOCAB starting with one instruction (operands -- addresses
    included -- come from the input stack, so whether two accesses collide is decided by the sampled state), and all blocks of
    exactly 4 instructions over the memory vocabulary."""
    n = len(ENUM_VOCAB) * len(ENUM_FLAGS)
    if i < n:
        first = ENUM_VOCAB[i % len(ENUM_VOCAB)]
        flags = ENUM_FLAGS[i // len(ENUM_VOCAB)]
        return [[first]] + [[first, a] for a in ENUM_VOCAB] + [[first, a, b] for a in ENUM_VOCAB for b in ENUM_VOCAB], list(flags)
    if i - n < len(ENUM_MEM):
        first = ENUM_MEM[i - n]
        return [[first, a, b, c] for a in ENUM_MEM for b in ENUM_MEM for c in ENUM_MEM], []
    return const_interval_blocks(i - n - len(ENUM_MEM)), []


def task(spec_):
    i = spec_["index"]
    rw = stream(spec_["seed"], i, "workload")
    ro = stream(spec_["seed"], i, "options")
    flags = []
    split = ro.choice(["none", "none", "-storage", "-partition"])
    if split != "none":
        flags.append(split)
    if ro.random() < 0.3:
        flags.append("-no-simplification")
    if ro.random() < 0.3:
        flags.append("-push0")
    if ro.random() < 0.25:
        flags.append("-size")
    if ro.random() < 0.15:
        flags.append("-pop-uninterpreted")       # an encoder option that changes the specification itself (POPs become instructions)
    blocks = [gen_block(rw) for _ in range(6)]
    if i < ENUM_TASKS:
        blocks, flags = enum_blocks(i)
    op = {"argv": flags + ["-greedy"], "blocks": [AJ.items_to_text(b, 2) for b in blocks]}
    st, out = procs.run_sut(pipe.run_specs, op, cpu_s=120 if i >= ENUM_TASKS else 900)
    summ = {"evals": 0, "keys": set(), "probes": {}, "faults": {}, "sim_s": 0.0, "samples": [], "harness": 0, "inconclusive": 0}
    viols = []
    if st != "ok":
        summ["inconclusive"] = 1
        summ["keys"] = []
        return dict(summ, violations=[])
    quick = spec_["tier"] == "quick"
    for bi, rec in enumerate(out):
        if "exc" in rec:
            summ["probes"]["frontend_raised"] = summ["probes"].get("frontend_raised", 0) + 1
            continue
        subs = rec["subs"]
        inner = [list(x) for x in subs]
        for k in range(len(subs) - 1):
            inner[k] = inner[k][:-1]
            inner[k + 1] = inner[k + 1][1:]
        for key, sfs in sorted(rec["sfs"].items()):
            k = int(key.rsplit("_", 1)[1])
            if k >= len(inner):
                continue
            orig = SE.items_of_plain(inner[k])
            for r in sfs.get("rules", []):
                rn = rule_name(r)
                summ["probes"]["rule:" + rn] = summ["probes"].get("rule:" + rn, 0) + 1
            v = check_spec(sfs, orig, spec_["seed"] * 7919 + i * 131 + bi * 17 + k, 8 if quick else 32, 8 if quick else 40, summ)
            if v is not None:
                cls, detail, extra = v
                viols.append({"class": cls, "detail": "%s | sub-block: %s | flags %s" % (detail, " ".join(inner[k]), " ".join(flags)),
                              "replay": dict(extra, sfs=sfs, orig=inner[k], flags=flags, block=op["blocks"][bi], key=key)})
        if not summ["samples"] and rec["sfs"]:
            summ["samples"].append({"block": op["blocks"][bi], "flags": flags, "spec_keys": sorted(rec["sfs"])})
    summ["keys"] = sorted(summ["keys"])
    seen = set()
    outv = []
    for v in viols:
        if tuple(v["class"]) not in seen:
            seen.add(tuple(v["class"]))
            outv.append(v)
    summ["violations"] = [minimise(v) for v in outv[:3]]
    return summ


def violations_of_block(block_text, flags, seeds=(7, 1007, 2007)):
    op = {"argv": flags + ["-greedy"], "blocks": [block_text]}
    st, out = procs.run_sut(pipe.run_specs, op, cpu_s=60)
    if st != "ok" or "exc" in out[0]:
        return []
    rec = out[0]
    subs = rec["subs"]
    inner = [list(x) for x in subs]
    for k in range(len(subs) - 1):
        inner[k] = inner[k][:-1]
        inner[k + 1] = inner[k + 1][1:]
    summ = {"evals": 0, "keys": set(), "probes": {}}
    found = []
    for key, sfs in sorted(rec["sfs"].items()):
        k = int(key.rsplit("_", 1)[1])
        if k >= len(inner):
            continue
        for s in seeds:
            v = check_spec(sfs, SE.items_of_plain(inner[k]), s, 16, 12, summ)
            if v is not None:
                found.append({"class": v[0], "detail": "%s | sub-block: %s | flags %s" % (v[1], " ".join(inner[k]), " ".join(flags)),
                              "replay": dict(v[2], sfs=sfs, orig=inner[k], flags=flags, block=block_text, key=key)})
                break
    return found


def minimise(v, budget=150):
    """Shrink the block while a violation of the same class persists."""
    rp = v["replay"]
    cls = v["class"]
    cur = common_parse(rp["block"])
    best = v
    n = 0
    progress = True
    while progress and n < budget:
        progress = False
        for cand in B.shrink_candidates(cur):
            n += 1
            if n > budget:
                break
            try:
                evm.stack_need_and_delta(cand)
            except Exception:
                continue
            vs = [x for x in violations_of_block(AJ.items_to_text(cand, 2), rp["flags"]) if x["class"] == cls]
            if vs:
                cur, best, progress = cand, vs[0], True
                break
    return best


def common_parse(text):
    from gsim.checks import common as C
    return C.parse_bl_input(text)


def replay(rp):
    """Regenerate the specification from the block with the real front-end and re-evaluate."""
    vs = violations_of_block(rp["block"], rp["flags"], seeds=tuple(range(7, 6007, 1000)))
    return vs[0] if vs else None


def _old_replay(rp):
    op = {"argv": rp["flags"] + ["-greedy"], "blocks": [rp["block"]]}
    st, out = procs.run_sut(pipe.run_specs, op, cpu_s=120)
    if st != "ok" or "exc" in out[0]:
        return None
    sfs = out[0]["sfs"].get(rp["key"].replace(rp["key"].split("_block_")[0], "b0", 1) if False else None)
    rec = out[0]
    subs = rec["subs"]
    inner = [list(x) for x in subs]
    for k in range(len(subs) - 1):
        inner[k] = inner[k][:-1]
        inner[k + 1] = inner[k + 1][1:]
    summ = {"evals": 0, "keys": set(), "probes": {}}
    for key, sfs in sorted(rec["sfs"].items()):
        k = int(key.rsplit("_", 1)[1])
        if k >= len(inner):
            continue
        for s in range(6):
            v = check_spec(sfs, SE.items_of_plain(inner[k]), s * 1000 + 7, 32, 40, summ)
            if v is not None:
                return {"class": v[0], "detail": v[1], "replay": rp}
    return None
