"""C12 -- a block's result does not depend on what was processed before it.

Histories are the schedule.  In one forked child of the pristine worker the real per-block pipeline
processes H = h1..hn and then B; in another fork, B alone.  The specification dictionaries
(identifiers included), the optimised instruction list, the log entry, the statistics rows (time
columns excluded) and the keep-or-revert decision obtained for B must be identical.  History members
are drawn from workloads that leave state behind (rule bait, pseudo pushes, blocks that raise inside the
front-end, stores for -storage, the -partition path).  Tool level: B first / middle / last in a -bl file.
"""
import json

from gsim.checks import common as C
from gsim.core import pipe, procs
from gsim.core.prng import stream, digest
from gsim.ref import asmjson as AJ
from gsim.work import blocks as B
from gsim.work import corpus
from gsim.work import options as O

ID = "C12"
LEVEL = "exploration"
RULE = ("one evaluation = one block B processed after a seeded history H (0..12 other blocks, same options, same process) and "
        "compared field by field with B processed alone in a fresh fork; non-trivial = |H| >= 1 and B's specification is non-empty "
        "and at least one history member fired a rule, raised in the front-end, contained a pseudo push or a store under -storage/"
        "-partition; distinct = digest of (H, B, option set)")
COMPONENTS = {"real": ["optimize_asm_block_asm_format, compare_asm_block_asm_format and everything below", "greedy", "z3 4.8.12 peer"],
              "stub": ["SimFS", "SimClock", "OptiMathSAT reply format"]}
ASSUMPTIONS = ["time columns of the statistics rows are excluded (simulated clock differs by construction after a history)",
               "within one process the option set is held fixed (the statement quantifies over histories with the same options)"]


def plan(tier, seed, batch):
    if tier == "quick":
        if batch > 0:
            return []
        n = 288
    else:
        n = 1600
    return [{"index": batch * 100000 + i, "seed": seed, "tier": tier} for i in range(n)]


COUNTED = ["TIMESTAMP", "GAS", "BLOCKHASH", "MLOAD", "SLOAD", "KECCAK256", "RETURNDATASIZE", "SELFBALANCE", "NUMBER"]


def counter_bait(rw, target=False):
    """Blocks that drive the front-end's per-process counters and name tables: many occurrences of the instructions it numbers
    (timestamp0, timestamp1, ... mload0 ...), and the same commutative operation computed twice with swapped operands."""
    items = []
    h = 3
    kind = rw.choice(["count", "count", "comm", "mix", "eval", "eval"])
    if kind == "eval":
        # the same few constant expressions in histories and targets: tables keyed by an expression (what was already
        # evaluated / discounted) then see the same key twice in one process
        for _ in range(rw.choice([1, 2])):
            a, b, op = rw.choice([(1, 1, "SUB"), (2, 3, "ADD"), (0xff, 0x100, "AND"), (4, 2, "MUL"), (7, 0, "DIV"), (1, 0xff, "SHL"), (5, 5, "EQ")])
            items += [("PUSH", "%x" % b), ("PUSH", "%x" % a), (op, None)]
            items += rw.choice([[("DUP2", None), ("ADD", None)], [("SWAP1", None), ("POP", None)], [("DUP1", None), ("MSTORE", None)], []])
        return items
    if kind in ("count", "mix"):
        op = rw.choice(COUNTED)
        for _ in range(rw.choice([2, 3]) if target else rw.choice([4, 8, 11, 14])):
            if op in ("BLOCKHASH", "MLOAD", "SLOAD"):
                items += [("DUP%d" % rw.randrange(1, h + 1), None), (op, None)]
            elif op == "KECCAK256":
                items += [("DUP2", None), ("DUP2", None), (op, None)]
            else:
                items += [(op, None)]
            items += rw.choice([[("POP", None)], [("DUP2", None), ("LT", None), ("POP", None)], [("DUP2", None), ("SSTORE", None)]])
    if kind in ("comm", "mix"):
        cop = rw.choice(["ADD", "MUL", "AND", "OR", "XOR", "EQ"])
        items += [("DUP2", None), ("DUP2", None), (cop, None), ("SWAP2", None), (cop, None)]
        items += rw.choice([[("SWAP1", None), ("SSTORE", None)], [("DUP1", None), ("MSTORE", None)], [("SWAP2", None)]])
        h = 1
    return items


DEGENERATE = ["POP", "POP POP", "POP POP POP", "SWAP1 POP", "DUP1 POP", "POP PUSH 1 POP", "SWAP1 SWAP1", "PUSH 0 POP", "POP POP PUSH [tag] 3 JUMP"]


# history members that fire rules / fold constants and then take an early exit of the front-end (the block turns out to be the
# identity, or its analysis raises after a rule has fired): whatever the rules booked is not consumed by a specification
LEFTOVER = ["PUSH 1 PUSH 2 ADD POP", "PUSH 3 PUSH 4 MUL POP", "DUP1 PUSH 0 ADD POP", "PUSH 2 PUSH 3 ADD PUSH 1 MUL POP", "PUSH 1 PUSH 1 SUB POP",
            "PUSH 7 PUSH 0 MUL POP", "DUP1 DUP1 XOR POP", "PUSH 1 PUSH 2 ADD PUSH 20 PUSH 0 PUSH 40 MCOPY", "DUP1 PUSH 0 OR SWAP1 POP",
            "PUSH 5 PUSH 5 EQ POP", "PUSH ff PUSH 1 SHL POP"]


def gen_text(rw, profile=None, length=None, pseudo=True, target=False):
    if not target and rw.random() < 0.15:
        return rw.choice(LEFTOVER)
    if target and rw.random() < 0.15:
        # degenerate targets: blocks with (almost) nothing to analyse take the early exits of the front-end, where whatever
        # an earlier block left behind is not overwritten
        return rw.choice(DEGENERATE)
    if rw.random() < 0.22:
        return AJ.items_to_text(counter_bait(rw, target), 2)
    if rw.random() < 0.25:
        b = corpus.sample_blocks(rw, 1, max_len=length or 30)[0]
        b = [it for it in b if it[0] not in ("tag", "JUMPDEST")]
    else:
        b = B.gen_block(rw, profile=profile, length=length, pseudo=pseudo, ending=rw.random() < 0.4)
    return AJ.items_to_text(b, 2 if pseudo else 0)


def build(spec):
    i = spec["index"]
    rw = stream(spec["seed"], i, "workload")
    ro = stream(spec["seed"], i, "options")
    rh = stream(spec["seed"], i, "history")
    backend = "-greedy" if i % 6 else "solver"
    flags, desc = O.draw(ro, backend=backend, solver="z3")
    small = backend != "-greedy"
    n = rh.choice([1, 1, 2, 3, 5, 8, 12])
    hist = [gen_text(rh, profile=rh.choice(["rules", "nasty", "memory", "split", "plain", None]),
                     length=rh.choice([4, 8, 12]) if small else None) for _ in range(n)]
    target = gen_text(rw, length=rw.choice([4, 6, 8]) if small else None, target=True)
    if rh.random() < 0.3:
        # the target itself was processed before (the same input twice in one process): whatever is keyed by the content
        # of a block -- evaluated expressions, discounts, caches -- sees its keys again
        hist[rh.randrange(n)] = target
    op = {"argv": flags, "history": hist, "block": target, "env": {"tmp_name": "t"}, "desc": desc, "cpu_s": 120}
    if small:
        op["peer_plan"] = [{"kind": "optimal"}]
    if rh.random() < 0.25:
        # one history member carries the target's block name: contracts with the same short name from different source
        # files of one combined json get identical block names
        op["same_name"] = [rh.randrange(n)]
    return op


def fields_differ(a, b):
    """First differing field between the two target records (lists of per-block records)."""
    if len(a) != len(b):
        return "block-count"
    for x, y in zip(a, b):
        for k in ("exc", "sfs", "subs", "new", "eq", "log", "stats", "gas", "reason"):
            if x.get(k) != y.get(k):
                if k == "sfs" and isinstance(x.get(k), dict) and isinstance(y.get(k), dict):
                    if set(x[k]) != set(y[k]):
                        return "sfs:keys"
                    for sb in x[k]:
                        for f in x[k][sb]:
                            if x[k][sb].get(f) != y[k][sb].get(f):
                                return "sfs:" + f
                if k == "stats" and x.get(k) and y.get(k) and len(x[k]) == len(y[k]):
                    for r1, r2 in zip(x[k], y[k]):
                        for f in r1:
                            if r1.get(f) != r2.get(f) and not (r1.get(f) != r1.get(f)):
                                return "stats:" + f
                return k
    return None


def run(op):
    return procs.run_in_child(pipe.run_blocks, op, cpu_s=op.get("cpu_s", 60))


def check(op):
    summ = {"evals": 0, "keys": [], "probes": {}, "faults": {}, "sim_s": 0.0, "samples": [], "harness": 0, "inconclusive": 0}
    alone = dict(op)
    alone["history"] = []
    alone["same_name"] = []
    st1, r1 = run(op)
    st2, r2 = run(alone)
    if st1 != "ok" or st2 != "ok":
        if st1 in ("cpu", "mem") and st2 == "ok":
            summ["inconclusive"] = 1      # budget of the whole history, not of B: C10's matter
        else:
            summ["inconclusive"] = 1
        summ["probes"]["child_" + st1] = 1
        return summ, []
    summ["evals"] = 1
    summ["sim_s"] = r1["sim_time"] + r2["sim_time"]
    if r1["exc"] or r2["exc"] or "target" not in r1 or "target" not in r2:
        summ["inconclusive"] = 1
        return summ, []
    t = r2["target"]
    if any(x.get("sfs") for x in t):
        summ["keys"].append(digest([op["history"], op["block"], op["argv"]]))
    d = fields_differ(r1["target"], t)
    if not summ["samples"]:
        summ["samples"].append({"argv": op["argv"], "history": op["history"][:3], "block": op["block"]})
    if d is None:
        return summ, []
    return summ, [{"class": ["history-dependence", d], "detail": "field %s of B differs after a history of %d blocks | B: %s | argv %s" % (
        d, len(op["history"]), op["block"], " ".join(op["argv"])), "replay": {"op": op}}]


def minimise(v):
    op = v["replay"]["op"]
    cls = v["class"]
    hist = list(op["history"])
    hist0 = list(hist)

    def fails(h):
        o = dict(op)
        o["history"] = h
        if op.get("same_name"):
            # keep the marked member marked (by content)
            marked = [hist0[k] for k in op["same_name"] if k < len(hist0)]
            o["same_name"] = [k for k, t in enumerate(h) if t in marked]
        _, vs = check(o)
        return vs[0] if vs and vs[0]["class"] == cls else None
    best = v
    # single members first, then greedy removal
    for i in range(len(hist)):
        x = fails([hist[i]])
        if x:
            return x
    i = 0
    while i < len(hist) and len(hist) > 1:
        cand = hist[:i] + hist[i + 1:]
        x = fails(cand)
        if x:
            hist, best = cand, x
        else:
            i += 1
    return best


def task(spec):
    op = build(spec)
    summ, viols = check(op)
    summ["violations"] = [minimise(v) for v in viols[:1]]
    return summ


def replay(rp):
    _, viols = check(rp["op"])
    return viols[0] if viols else None
