"""C13 -- specification generation and greedy search are deterministic.

The same op list is executed in worker interpreters started with different PYTHONHASHSEED values
(0, 1, 2 and seeded others), with different temp-dir names and different simulated clock rates; the
specification JSON files (identifiers included), the log (greedy id lists), the emitted file and
the statistics CSVs (time columns excluded) must have equal digests pairwise.
"""
import json
import os
import subprocess
import sys

from gsim.checks import common as C
from gsim.core.prng import stream, digest
from gsim.work import corpus
from gsim.work import contracts as CT

ID = "C13"
LEVEL = "exploration"
RULE = ("one evaluation = one op (real CLI run, greedy back-ends, -intermediate so specifications stay on SimFS) executed under one "
        "additional process schedule (PYTHONHASHSEED, temp-dir name, simulated clock rate) and compared artefact by artefact with "
        "the PYTHONHASHSEED=0 run; non-trivial = the run emitted at least one specification file and an optimised block; distinct = "
        "digest of (input, option set, hash seed)")
COMPONENTS = {"real": ["gasol_asm.execute_gasol and below", "greedy back-end", "CPython string-hash randomisation (separate interpreters)"],
              "stub": ["SimFS", "SimClock"]}
ASSUMPTIONS = ["solver-backed runs are excluded: the statement is about specification generation and the greedy search",
               "time columns are excluded when the simulated clock rate differs"]
VERIF = os.path.dirname(os.path.dirname(os.path.dirname(os.path.abspath(__file__))))


def plan(tier, seed, batch):
    if tier == "quick":
        if batch > 0:
            return []
        n = 48
    else:
        n = 160
    return [{"index": batch * 100000 + i, "seed": seed, "tier": tier} for i in range(n)]


def fanout_block(rw):
    """One access with several independent successors (or predecessors) in the dependency relation, optionally next to a
    hash that does not reach the target stack (an instruction without identifier): the places where the front-end handles
    *sets* of instruction identifiers, whose iteration order is the string-hash order of the process."""
    mem = rw.random() < 0.6
    ld, st = ("MLOAD", "MSTORE") if mem else ("SLOAD", "SSTORE")
    n = rw.choice([2, 3, 3, 4, 5])
    consts = rw.sample([0, 0x20, 0x40, 0x60, 0x80, 0xa0, 0xc0], n)
    items = []
    dead_hash = [("PUSH", "20"), ("PUSH", "%x" % rw.choice([0, 0x20, 0x40])), ("KECCAK256", None), ("POP", None)]
    kind = rw.choice(["load-stores", "store-loads", "stores-load", "mixed", "shared-stores-load", "chase", "chase"])
    if kind == "chase":
        # pointer chasing (each load reads the address the previous one returned, every result stays alive) followed by
        # stores to unrelated addresses: the store has several indirect predecessors, and they contain one another
        items += [("DUP%d" % rw.randrange(1, 3), None), (ld, None)]
        for _ in range(rw.choice([1, 1, 2])):
            items += [("DUP1", None), (ld, None)]
        if rw.random() < 0.3:
            items += dead_hash
        for _ in range(rw.choice([1, 1, 2])):
            items += rw.choice([[("DUP%d" % rw.randrange(4, 6), None), ("DUP%d" % rw.randrange(4, 6), None), (st, None)],
                                [("DUP4", None), ("PUSH", "%x" % rw.choice(consts)), (st, None)], [("SWAP3", None), ("SWAP1", None), ("SWAP2", None), (st, None)]])
        return items + rw.choice([[], [("PUSH", "20")]]) + [("PUSH", "%x" % rw.randrange(1, 99)), ("JUMP", None)]
    if kind == "shared-stores-load":
        # several stores of one computed value (or of values that share a sub-term), then an access that depends on all of
        # them: its indirect predecessors overlap, so the order in which they are visited matters for what is counted twice
        items += [("DUP1", None), ("PUSH", "1"), ("ADD", None)]
        for c in consts:
            if rw.random() < 0.5:
                items += [("DUP1", None), ("PUSH", "%x" % c), (st, None)]
            else:
                items += [("DUP1", None), ("PUSH", "%x" % rw.choice([2, 3])), ("MUL", None), ("PUSH", "%x" % c), (st, None)]
        if rw.random() < 0.5:
            items += dead_hash
        items += [("DUP2", None), (ld, None)] + ([("DUP3", None), (ld, None)] if rw.random() < 0.5 else [])
    elif kind == "load-stores":
        items += [("DUP%d" % rw.randrange(1, 4), None), (ld, None)]
        if rw.random() < 0.5:
            items += dead_hash
        for c in consts:
            items += [("DUP%d" % rw.randrange(1, 4), None), ("PUSH", "%x" % c), (st, None)]
    elif kind == "store-loads":
        items += [("DUP2", None), ("DUP2", None), (st, None)]
        if rw.random() < 0.5:
            items += dead_hash
        for c in consts:
            items += [("PUSH", "%x" % c), (ld, None)]
    elif kind == "stores-load":
        for c in consts:
            items += [("DUP%d" % rw.randrange(1, 4), None), ("PUSH", "%x" % c), (st, None)]
        if rw.random() < 0.5:
            items += dead_hash
        items += [("DUP%d" % rw.randrange(1, 4), None), (ld, None)]
    else:
        items += [("DUP1", None), (ld, None)]
        for c in consts[:2]:
            items += [("DUP3", None), ("PUSH", "%x" % c), (st, None)]
        items += dead_hash
        items += [("DUP2", None), (ld, None)]
        for c in consts[2:]:
            items += [("PUSH", "%x" % c), (ld, None)]
    return items + [("PUSH", "%x" % rw.randrange(1, 99)), ("JUMP", None)]


def build_ops(spec):
    ops = []
    for j in range(8):
        i = spec["index"] * 8 + j
        sub = {"index": i, "seed": spec["seed"], "tier": spec["tier"]}
        rw = stream(spec["seed"], i, "workload")
        if j == 7:
            doc, src = corpus.window_doc(rw, nblocks=12)
            from gsim.work import options as O
            flags, desc = O.draw(stream(spec["seed"], i, "options"), backend="-greedy")
            op = C.asm_op(doc, flags + ["-log"])
            op["fmt"] = "asm"
            op["desc"] = desc
        elif j == 6:
            from gsim.work import options as O
            flags, desc = O.draw(stream(spec["seed"], i, "options"), backend="-greedy")
            flags = [f for f in flags if f not in ("-storage", "-partition")]
            op = C.bl_op([fanout_block(rw) for _ in range(8)], flags)
            op["fmt"] = "bl"
            op["desc"] = desc
        else:
            op = C.build_pipe_op(sub, backend="-greedy")
            if op["fmt"] != "bl":
                op["argv"].append("-log")
        op["argv"].append("-intermediate")
        ops.append(op)
    return ops


def run_worker(ops, hashseed, tmp_name, rate):
    ops2 = []
    for op in ops:
        o = json.loads(json.dumps(op))
        o["env"] = {"tmp_name": tmp_name, "clock_rate": rate, "clock_seed": hashseed}
        ops2.append(o)
    env = dict(os.environ)
    env["PYTHONHASHSEED"] = str(hashseed)
    # the process environment is part of the schedule: a session temp dir as batch systems set it (no trailing slash)
    env.pop("TMPDIR", None)
    if tmp_name not in ("t", "u1"):
        env["TMPDIR"] = "/scratch/job_" + tmp_name
    env["PYTHONPATH"] = VERIF
    p = subprocess.run([sys.executable, "-W", "ignore", "-m", "gsim.hashworker"], input=json.dumps(ops2).encode(),
                       stdout=subprocess.PIPE, stderr=subprocess.DEVNULL, env=env, cwd=VERIF, timeout=1500)
    return [json.loads(l) for l in p.stdout.decode().splitlines() if l.strip()]


def artefact_kind(k0):
    return ("sfs-json" if "/jsons/" in k0 else "rbr" if k0.endswith(".rbr") else "disasm" if "disasm" in k0 else
            "log" if k0.endswith(".log") else "csv" if k0.endswith(".csv") else "output" if "_optimized" in k0 else k0)


def task(spec):
    rs = stream(spec["seed"], spec["index"], "schedule")
    ops = build_ops(spec)
    summ = {"evals": 0, "keys": [], "probes": {}, "faults": {}, "sim_s": 0.0, "samples": [], "harness": 0, "inconclusive": 0}
    schedules = [(0, "t", 1.0), (1, "u1", 1.0), (2, "zz9", 3.0), (rs.randrange(3, 1 << 31), "%08x" % rs.getrandbits(32), rs.choice([0.5, 2.0, 10.0]))]
    if spec["tier"] == "thorough":
        schedules.append((rs.randrange(3, 1 << 31), "%08x" % rs.getrandbits(32), 1.0))
    results = [run_worker(ops, *s) for s in schedules]
    viols = []
    base = results[0]
    if len(base) != len(ops):
        summ["harness"] = 1
        return dict(summ, violations=[])
    for si in range(1, len(schedules)):
        r = results[si]
        if len(r) != len(ops):
            summ["harness"] += 1
            continue
        for oi, op in enumerate(ops):
            a, b = base[oi], r[oi]
            if a["status"] != "ok" or b["status"] != "ok":
                if a["status"] != b["status"]:
                    viols.append({"class": ["status"], "detail": "%s vs %s" % (a["status"], b["status"]),
                                  "replay": {"op": op, "schedules": [schedules[0], schedules[si]]}})
                else:
                    summ["inconclusive"] += 1
                continue
            summ["evals"] += 1
            summ["sim_s"] += b["sim_s"]
            nontrivial = any("/jsons/" in k for k in a["art"]) and a.get("improved")
            if nontrivial:
                summ["keys"].append(digest([op["files"], op["argv"], schedules[si][0]]))
            if a["art"] != b["art"]:
                ks = sorted(k for k in set(a["art"]) | set(b["art"]) if a["art"].get(k) != b["art"].get(k))
                k0 = ks[0]
                kind = artefact_kind(k0)
                viols.append({"class": ["nondeterminism", kind],
                              "detail": "artefact %s differs between PYTHONHASHSEED=0 and %d (tmp %s, clock x%s) | argv %s" % (
                                  k0, schedules[si][0], schedules[si][1], schedules[si][2], " ".join(op["argv"][1:])),
                              "replay": {"op": op, "schedules": [list(schedules[0]), list(schedules[si])]}})
    if ops and not summ["samples"]:
        summ["samples"].append({"argv": ops[0]["argv"][1:], "schedules": [list(s) for s in schedules]})
    summ["probes"]["hashseeds"] = len(schedules)
    summ["violations"] = viols[:2]
    return summ


def replay(rp):
    s0, s1 = rp["schedules"]
    a = run_worker([rp["op"]], *s0)
    b = run_worker([rp["op"]], *s1)
    if a and b and a[0].get("art") != b[0].get("art"):
        ks = sorted(k for k in set(a[0]["art"]) | set(b[0]["art"]) if a[0]["art"].get(k) != b[0]["art"].get(k))
        return {"class": ["nondeterminism", artefact_kind(ks[0])], "detail": "artefacts differ: %s" % ks[:5], "replay": rp}
    return None
