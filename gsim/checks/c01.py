"""C01 -- optimized blocks are observationally equivalent to the original.

Whole-pipeline simulation: real CLI argv -> execute_gasol on SimFS, peer = SimSolver with an
honest-but-free plan (optimal / any model / non-optimal / skewed objective / n-th model / no model /
unsat / timeout), option swarm; oracle = R1 on seeded machine states.
"""
import json

from gsim.checks import common as C
from gsim.core.prng import stream, digest
from gsim.ref import asmjson as AJ
from gsim.work import blocks as B
from gsim.work import contracts as CT
from gsim.work import options as O

ID = "C01"
LEVEL = "exploration"
RULE = ("one evaluation = one (input block, emitted block) pair produced by a simulated run of the real CLI "
        "(seeded block grammar with rule/memory/split bait, option swarm, seeded solver-peer plan) and compared by the "
        "reference EVM interpreter on K seeded machine states; non-trivial = the emitted block differs textually from "
        "the input block (an optimisation was applied and kept); distinct = by digest of (input block, emitted block, "
        "option set)")
COMPONENTS = {"real": ["gasol_asm.execute_gasol and everything below it", "argument parser", "z3 4.8.12 binary as solver peer",
                       "greedy back-end", "sfs_verify re-verification"],
              "stub": ["OptiMathSAT reply format (z3 model re-rendered)", "file system (SimFS)", "clock (SimClock)"]}
ASSUMPTIONS = ["R1 reference interpreter is a faithful model of EVM block semantics (gas exhaustion not modelled; PC/MSIZE excluded)",
               "256-bit states are sampled (K per pair), not enumerated",
               "KECCAK256 modelled as a collision-free function of the addressed bytes"]

HONEST = C.HONEST


def plan(tier, seed, batch):
    if tier == "quick":
        if batch > 0:
            return []
        n = 420
    else:
        n = 1600
    return [{"index": batch * 100000 + i, "seed": seed, "tier": tier} for i in range(n)]


SWEEP_TASKS = 36


def rule_sweep_blocks(k, near=False):
    """Deterministic sweep over the rule-bait patterns (work/blocks.BAIT): every pattern instantiated on stack inputs,
    once with the operands duplicated (X stays alive) and once consumed, so that each rule family is exercised in every run
    of the check instead of by the luck of the block grammar."""
    import random
    # near=True (C01): also the near misses of the two-term rules; C05 and C10 sweep the rule patterns proper
    pats = B.BAIT + (B.BAIT_NEAR if near else [])
    per = (len(pats) + SWEEP_TASKS - 1) // SWEEP_TASKS
    out = []
    for pi in range(k * per, min(len(pats), (k + 1) * per)):
        for variant in range(6):
            r = random.Random(pi * 7 + variant)
            g = B.Gen(r, {"pseudo": False, "bait": 0})
            g.h = 4
            subs = {}

            def inst(t):
                if t[0] == "ph":
                    if t[1] not in subs:
                        subs[t[1]] = ("slot", r.randrange(0, 4)) if variant != 2 else ("const", r.choice([0, 1, 2, 0xff, (1 << 256) - 1, 1 << 255]))
                    return subs[t[1]]
                if t[0] == "op":
                    return ("op", t[1], [inst(c) for c in t[2]])
                return t
            g.compile(("keepinner", inst(pats[pi])) if variant in (4, 5) else inst(pats[pi]))
            if variant == 5 and g.h >= 6:
                # ... and another instruction reads the inner term (it is not left on the stack, but it is still needed)
                g.items += [(r.choice(["LT", "ADD", "SUB", "GT"]), None)]
                g.h -= 1
            if variant == 1:
                g.items += [("SWAP1", None), ("POP", None)]
            if variant == 3:
                # the simplified term used twice by one instruction
                g.items += [("DUP1", None), (r.choice(["ADD", "MUL", "SUB", "LT"]), None)]
            tail = r.choice([[], [("DUP2", None), ("ADD", None)], [("PUSH", "0"), ("MSTORE", None)], [("ISZERO", None)]])
            out.append(g.items + tail + [("PUSH", "%x" % (pi + 1)), ("JUMP", None)])
    return out


PSEUDO_TASKS = 24


def pseudo_sweep_blocks(r):
    """Blocks made of pseudo pushes (PUSHLIB, PUSH [tag], PUSH data, PUSH #[$], PUSH [$], PUSHIMMUTABLE) whose operands
    repeat inside the block, followed by stack shuffles that make the optimizer regenerate the pushes: the tool renames
    the operands per block (PUSHLIB operands become an index by distinct value) and has to restore them on the way out."""
    out = []
    for _ in range(5):
        name = r.choice([n for n, hasv in B.PSEUDO if hasv] + ["PUSHLIB", "PUSHLIB"])
        pool = []
        while len(pool) < r.choice([2, 2, 3]):
            v = B.pseudo_operand(r, name)
            if v not in pool:
                pool.append(v)
        # the first operand repeats before the others appear
        seq = [pool[0]] * r.choice([1, 2, 2, 3]) + [r.choice(pool) for _ in range(r.choice([1, 2, 3]))] + [pool[-1]]
        items = [(name, v) for v in seq]
        h = len(items)
        for _ in range(r.choice([1, 2, 3, 4])):
            x = r.random()
            if x < 0.35 and h >= 2:
                items.append(("SWAP%d" % r.randrange(1, h), None))
            elif x < 0.6 and h >= 2:
                items.append(("POP", None))
                h -= 1
            elif x < 0.8:
                items.append(("DUP%d" % r.randrange(1, h + 1), None))
                h += 1
            elif h >= 2:
                items.append((r.choice(["ADD", "AND", "SUB", "EQ"]), None))
                h -= 1
        if r.random() < 0.5:
            # something the rules remove, so that the block is regenerated even when the shuffles cancel out
            items += [("PUSH", "0"), ("ADD", None)]
        items += [("PUSH [tag]", str(r.randrange(1, 9))), ("JUMP", None)]
        out.append(items)
    return out


ENUM_VOCAB = [("PUSH", "0"), ("PUSH", "1"), ("PUSH", "20"), ("DUP1", None), ("DUP2", None), ("SWAP1", None), ("POP", None), ("ADD", None),
              ("SUB", None), ("MUL", None), ("DIV", None), ("AND", None), ("OR", None), ("XOR", None), ("NOT", None), ("ISZERO", None),
              ("EQ", None), ("LT", None), ("SHL", None), ("EXP", None), ("MLOAD", None), ("MSTORE", None), ("MSTORE8", None), ("SLOAD", None),
              ("SSTORE", None), ("KECCAK256", None)]
ENUM_FIRST = SWEEP_TASKS + PSEUDO_TASKS


def build_op(spec):
    if ENUM_FIRST <= spec["index"] < ENUM_FIRST + len(ENUM_VOCAB):
        # small-scope sweep through the whole pipeline (greedy): every block of <= 3 instructions over ENUM_VOCAB that starts
        # with one given instruction; operands (addresses included) come from the input stack
        first = ENUM_VOCAB[spec["index"] - ENUM_FIRST]
        bl = [[first]] + [[first, a] for a in ENUM_VOCAB] + [[first, a, b] for a in ENUM_VOCAB for b in ENUM_VOCAB]
        bl = [b + [("STOP", None)] for b in bl]          # a -bl file is one instruction stream: only a terminator ends a block
        flags = [[], ["-size"], ["-length"], ["-push0"], ["-storage"]][spec["index"] % 5] + ["-greedy"]
        op = C.bl_op(bl, flags)
        op["fmt"] = "bl"
        op["cpu_s"] = 300
        op["desc"] = {"split": "none", "crit": "gas", "rules": True, "push0": "-push0" not in flags, "backend": "-greedy"}
        return op
    if SWEEP_TASKS <= spec["index"] < SWEEP_TASKS + PSEUDO_TASKS:
        r = stream(spec["seed"], spec["index"], "pseudo-sweep")
        bl = pseudo_sweep_blocks(r)
        flags = [[], ["-size"], ["-length"], ["-push0"]][spec["index"] % 4] + ["-greedy"]
        single = spec["index"] % 2 == 0
        doc = CT.gen_contract_asm(r, nblocks_init=1, nblocks_run=4, blocks=bl)
        if not single:
            doc = {"contracts": {"src/p.sol:P": {"asm": doc}}, "version": "0.8.17+commit.8df45f5f.Linux.g++"}
        op = C.asm_op(doc, flags, single=single)
        op["fmt"] = "single" if single else "asm"
        op["desc"] = {"split": "none", "crit": "gas", "rules": True, "push0": "-push0" not in flags, "backend": "-greedy"}
        return op
    if spec["index"] < SWEEP_TASKS:
        bl = rule_sweep_blocks(spec["index"], near=True)
        if not bl:
            return C.build_pipe_op(spec)
        flags = [[], ["-size"], ["-length"], ["-push0"]][spec["index"] % 4] + ["-greedy"]
        op = C.bl_op(bl, flags)
        op["fmt"] = "bl"
        op["desc"] = {"split": "none", "crit": "gas", "rules": True, "push0": "-push0" not in flags, "backend": "-greedy"}
        return op
    op = C.build_pipe_op(spec)
    if op.get("peer_plan") and spec["index"] % 3 == 0:
        # a reply-corrupting solver peer: the re-verification has to keep whatever it lets through equivalent
        op["solver_mutator"] = {"seed": spec["index"], "calls": None}
    return op


def pairs_of(op, res):
    return C.pairs_of(op, res)


def check_op(op, oracle_seed, k):
    """Run op, evaluate the oracle.  Returns (summary dict, list of violations)."""
    st, res = C.run_child(op)
    summ = {"evals": 0, "keys": [], "probes": {}, "faults": {}, "sim_s": 0.0, "samples": [], "harness": 0,
            "inconclusive": 0}
    if st != "ok":
        # limits / aborts are C10's verdict, not C01's; count and go on
        summ["probes"]["run_" + st.split(":")[0]] = 1
        summ["inconclusive"] = 1
        return summ, []
    summ["sim_s"] = res["sim_time"]
    if res["exc"] is not None:
        summ["probes"]["run_raised_" + res["exc"]["type"]] = 1
        summ["inconclusive"] = 1
        return summ, []
    try:
        pairs = pairs_of(op, res)
    except ValueError as e:
        return summ, [{"class": ["skeleton"], "detail": str(e), "replay": {"op": op, "k": k, "oracle_seed": oracle_seed}}]
    if pairs is None:
        summ["probes"]["no_output"] = 1
        summ["inconclusive"] = 1
        return summ, []
    viols = []
    for c in res["solver_calls"]:
        summ["probes"]["peer_" + c["kind"]] = summ["probes"].get("peer_" + c["kind"], 0) + 1
    if op.get("solver_mutator"):
        summ["faults"]["reply_corrupted"] = summ["faults"].get("reply_corrupted", 0) + len(res["records"].get("reply_mutations", []))
    for path, a, b in pairs:
        summ["evals"] += 1
        ca, cb = AJ.canon_items(a), AJ.canon_items(b)
        if _strip(ca) != _strip(cb):
            summ["keys"].append(digest([ca, cb, op["argv"][1:]]))
            if len(summ["samples"]) < 1:
                summ["samples"].append({"argv": op["argv"][1:], "in": AJ.items_to_text(a), "out": AJ.items_to_text(b)})
        d = C.equiv(_strip(a), _strip(b), oracle_seed, k)
        if d is not None:
            viols.append({"class": [d[0], C.opcode_multiset_diff(ca, cb)], "detail": "%s: %s | in: %s | out: %s | argv %s" % (
                path, d[1], AJ.items_to_text(a), AJ.items_to_text(b), " ".join(op["argv"][1:])),
                "replay": {"op": op, "k": k, "oracle_seed": oracle_seed, "state": d[2], "block": path}})
    return summ, viols


def _strip(items):
    # -bl text rendering drops tag operands and jump types; compare modulo those fields
    return [(n, None if n in ("tag",) else v) for n, v in items]


def minimise(v, budget=60):
    """Shrink the failing -bl op to one block and fewer instructions while the violation class stays."""
    rp = v["replay"]
    op = rp["op"]
    if op.get("fmt") != "bl" or "block" not in rp:
        return v
    text = op["files"][op["argv"][0]]
    lines = text.split("\n")
    idx = int(rp["block"].lstrip("#")) if rp["block"].lstrip("#").isdigit() else None
    cls0 = v["class"][0]

    def attempt(items):
        op2 = dict(op)
        op2["files"] = {op["argv"][0]: AJ.items_to_text(items)}
        _, vs = check_op(op2, rp["oracle_seed"], rp["k"])
        for x in vs:
            if x["class"][0] == cls0:
                return x
        return None
    if idx is None or idx >= len(lines):
        return v
    # blocks may span lines differently; take the idx-th block by our own cut
    allb = []
    for line in lines:
        allb.extend(AJ.cut_blocks(C.parse_bl_input(line)))
    if idx >= len(allb):
        return v
    cur = list(allb[idx])
    best = attempt(cur)
    if best is None:
        return v
    n = 0
    progress = True
    while progress and n < budget:
        progress = False
        for cand in B.shrink_candidates(cur):
            n += 1
            if n > budget:
                break
            try:
                from gsim.ref import evm
                evm.stack_need_and_delta(cand)
            except Exception:
                continue
            x = attempt(cand)
            if x is not None:
                cur, best, progress = cand, x, True
                break
    return best


def task(spec):
    op = build_op(spec)
    k = 12 if spec["tier"] == "quick" else 48
    summ, viols = check_op(op, spec["seed"] * 1000003 + spec["index"], k)
    out = []
    for v in viols[:2]:
        out.append(minimise(v))
    summ["violations"] = out
    return summ


def replay(rp):
    _, viols = check_op(rp["op"], rp["oracle_seed"], rp["k"])
    return viols[0] if viols else None
