"""C09 -- non-optimizable code and metadata are preserved; emitted items are well formed.

PIPE on contracts (synthetic documents, windows of the shipped examples, whole shipped files in the
thorough tier).  The environment dimension is *which sub-blocks end up replaced*: the solver peer
succeeds or fails per call with a per-run probability, so the stitching code sees every
interleaving of optimised and untouched segments around split instructions.  Oracle: R5.
"""
import json
import re

from gsim.checks import common as C
from gsim.core.prng import stream, digest
from gsim.ref import asmjson as AJ
from gsim.ref import evm
from gsim.work import contracts as CT
from gsim.work import corpus
from gsim.work import options as O

ID = "C09"
LEVEL = "exploration"
RULE = ("one evaluation = one code section of an emitted document compared with the same section of the input by the "
        "independent JSON walker R5 (skeleton entries field by field, well-formedness of every other item, metadata) plus one "
        "per document for the tool's own re-parse; non-trivial = the section contains at least one replaced segment next to an "
        "untouched or split instruction; distinct = digest of (section skeleton, pattern of replaced blocks, option set)")
COMPONENTS = {"real": ["gasol_asm.execute_gasol and below (rebuild_optimized_asm_block, ids2asm, to_json)", "parser_asm re-parse",
                       "z3 4.8.12 peer", "greedy back-end"], "stub": ["OptiMathSAT reply format", "SimFS", "SimClock"]}
ASSUMPTIONS = ["skeleton = tag, JUMPDEST, jumps, terminal and split instructions (plus stores under -storage)",
               "a contract without asm may be emitted as {} (asm missing == asm null)"]

HEX = re.compile(r"[0-9a-fA-F]+\Z")
NUMERIC_PSEUDO = {"PUSH data", "PUSHLIB", "PUSHIMMUTABLE", "PUSH #[$]", "PUSH [$]"}
PSEUDO_V = {"PUSH [tag]", "PUSH data", "PUSHLIB", "PUSHIMMUTABLE", "PUSH #[$]", "PUSH [$]"}


def plan(tier, seed, batch):
    if tier == "quick":
        if batch > 0:
            return []
        n = 300
    else:
        n = 1200
    return [{"index": batch * 100000 + i, "seed": seed, "tier": tier} for i in range(n)]


def build_op(spec):
    i = spec["index"]
    rw = stream(spec["seed"], i, "workload")
    ro = stream(spec["seed"], i, "options")
    rp = stream(spec["seed"], i, "peer")
    kind = i % 6
    backend = "-greedy" if kind in (0, 1, 2) else ("solver" if kind in (3, 4) else "-ub-greedy")
    flags, desc = O.draw(ro, backend=backend)
    small = backend != "-greedy"
    single = False
    src = "synthetic"
    if i % 4 == 0:
        doc, src = corpus.window_doc(rw, nblocks=4 if small else 10)
        if spec["tier"] == "thorough" and i % 40 == 0 and not small:
            p = rw.choice(corpus.files())
            doc, src = corpus.load(p), "whole:" + p.split("/")[-1]
    elif i % 4 == 1:
        single = True
        doc = CT.gen_contract_asm(rw, nblocks_init=1, nblocks_run=3 if small else 5,
                                  block_kw={"profile": "split", "length": 8 if small else None})
    else:
        doc = CT.gen_combined(rw, ncontracts=rw.choice([1, 2, 3]), nblocks_init=1, nblocks_run=2 if small else 4,
                              block_kw={"profile": rw.choice(["split", "split", "memory", "plain"]), "length": 8 if small else None})
    contract = None
    if not single and rw.random() < 0.15:
        names = [k for k, v in doc["contracts"].items() if v.get("asm")]
        contract = rw.choice(names).split("/")[-1].split(":")[-1]
        flags = flags + ["-c", contract]
    if not single and contract is None and i % 3 == 0:
        # second step of the history: the log of the run is replayed, and the replayed document is held to the same rules;
        # some of these documents contain a block whose analysis is impossible (it has to survive both steps as it is)
        flags = flags + ["-log"]
        if rw.random() < 0.5:
            CT.inject_unanalysable(doc, rw)
    op = C.asm_op(doc, flags, single=single)
    op["fmt"] = "single" if single else "asm"
    op["desc"] = desc
    op["src"] = src
    op["contract"] = contract
    op["reparse"] = C.output_path(op)
    if backend != "-greedy":
        p = rp.choice([0.0, 0.2, 0.5, 0.8, 1.0])
        plan_ = []
        for _ in range(60):
            plan_.append({"kind": "optimal" if rp.random() < p else rp.choice(["no_model", "unsat"])})
        op["peer_plan"] = plan_
        op["cpu_s"] = 200
    return op


def skeleton_names(desc):
    s = set(AJ.BEGIN_SET) | set(AJ.END_SET) | set(AJ.SPLIT_SET)
    if desc["split"] == "-storage":
        s |= AJ.STORE_SET
    return s


def wellformed(e, in_block_pairs, push0, in_has_push0):
    """None or a (field, message) describing why emitted entry e is not a valid assembly item."""
    name = e.get("name")
    if not isinstance(name, str):
        return ("name", "entry without name")
    if name == "PUSH0":
        if not push0 and not in_has_push0:
            return ("push0-disabled", "PUSH0 emitted although PUSH0 is disabled and the input block has none")
        if "value" in e:
            return ("push0-value", "PUSH0 with a value")
        return None
    if name not in evm.ARITY:
        return ("opcode", "unknown opcode name %r" % name)
    v = e.get("value")
    if name == "PUSH":
        if not isinstance(v, str) or not HEX.match(v):
            return ("push-hex", "PUSH value %r is not plain hex" % (v,))
        if len(v) > 1 and v[0] == "0":
            return ("push-canonical", "PUSH value %r has leading zeros" % v)
        if int(v, 16) >= 1 << 256:
            return ("push-range", "PUSH value %s >= 2^256" % v)
        return None
    if name in PSEUDO_V or name == "ASSIGNIMMUTABLE":
        if (name, v) in in_block_pairs:
            return None
        if name in NUMERIC_PSEUDO and isinstance(v, str) and HEX.match(v):
            # these operands are hex numbers for the assembler: case and leading zeros do not matter
            for n2, v2 in in_block_pairs:
                if n2 == name and isinstance(v2, str) and HEX.match(v2) and int(v2, 16) == int(v, 16):
                    return None
        return ("pseudo-operand", "%s %r does not occur in the input block" % (name, v))
    if name in ("PUSHSIZE", "PUSHDEPLOYADDRESS"):
        return None
    if name == "tag":
        return None
    if v is not None and name not in ("JUMP", "JUMPI"):
        return ("stray-value", "%s carries value %r" % (name, v))
    return None


def compare_docs(op, in_doc, out_doc):
    """Yield violations (class list, detail) and counters."""
    desc = op["desc"]
    sk = skeleton_names(desc)
    viols = []
    stats = {"sections": 0, "replaced_blocks": 0, "mixed_sections": 0, "keys": []}
    single = op["fmt"] == "single"
    contract = op.get("contract")
    if single:
        cons = [("contract", in_doc, out_doc)]
    elif contract is not None:
        k = [k for k in in_doc["contracts"] if k.split("/")[-1].split(":")[-1] == contract][0]
        cons = [(k, in_doc["contracts"][k].get("asm"), out_doc)]
    else:
        if in_doc.get("version") != out_doc.get("version"):
            viols.append((["metadata", "version"], "version %r -> %r" % (in_doc.get("version"), out_doc.get("version"))))
        if set(in_doc["contracts"].keys()) != set(out_doc.get("contracts", {}).keys()):      # (key order of a JSON object carries no meaning)
            viols.append((["metadata", "contract-keys"], "contract keys %r -> %r" % (
                list(in_doc["contracts"].keys()), list(out_doc.get("contracts", {}).keys()))))
            return viols, stats
        cons = [(k, (v or {}).get("asm"), (out_doc["contracts"][k] or {}).get("asm")) for k, v in in_doc["contracts"].items()]
    for k, a, b in cons:
        if not a:
            if b:
                viols.append((["metadata", "asm-appeared"], "contract %s had no asm" % k))
            continue
        if not b:
            viols.append((["metadata", "asm-lost"], "contract %s lost its asm" % k))
            continue
        viols.extend(compare_asm(a, b, k, sk, desc, stats))
    return viols, stats


def compare_asm(a, b, k, sk, desc, stats, path=""):
    viols = []
    for key in set(a) | set(b):
        if key in (".code", ".data"):
            continue
        if a.get(key, "<absent>") != b.get(key, "<absent>"):       # a field that appears with value null is a change too
            viols.append((["metadata", key], "%s%s: field %s %r -> %r" % (k, path, key, a.get(key, "<absent>"), b.get(key, "<absent>"))))
    viols.extend(compare_code(a.get(".code", []), b.get(".code"), k + path + "/.code", sk, desc, stats))
    da, db = a.get(".data"), b.get(".data")
    if (da is None) != (db is None):
        viols.append((["metadata", ".data"], "%s%s: .data presence changed" % (k, path)))
        return viols
    if da is None:
        return viols
    if set(da.keys()) != set(db.keys()):
        viols.append((["metadata", ".data-keys"], "%s%s: .data keys %r -> %r" % (k, path, list(da), list(db))))
        return viols
    for dk in da:
        x, y = da[dk], db[dk]
        if isinstance(x, dict) and ".code" in x and path == "":
            if not isinstance(y, dict):
                viols.append((["metadata", ".data-entry"], "%s/.data/%s changed type" % (k, dk)))
                continue
            for key in set(x) | set(y):
                if key == ".code":
                    continue
                if x.get(key, "<absent>") != y.get(key, "<absent>"):
                    viols.append((["metadata", "data:" + key], "%s/.data/%s: field %s changed (%r -> %r)" % (
                        k, dk, key, str(x.get(key, "<absent>"))[:40], str(y.get(key, "<absent>"))[:40])))
            viols.extend(compare_code(x[".code"], y.get(".code"), "%s/.data/%s/.code" % (k, dk), sk, desc, stats))
        elif x != y:
            viols.append((["metadata", ".data-entry"], "%s%s/.data/%s changed" % (k, path, dk)))
    return viols


def compare_code(ca, cb, where, sk, desc, stats):
    viols = []
    if cb is None:
        return [(["metadata", ".code-lost"], where)]
    stats["sections"] += 1
    ska = [e for e in ca if e["name"] in sk]
    skb = [e for e in cb if e.get("name") in sk]
    if ska != skb:
        # first difference
        n = min(len(ska), len(skb))
        i = next((i for i in range(n) if ska[i] != skb[i]), n)
        x = ska[i] if i < len(ska) else None
        y = skb[i] if i < len(skb) else None
        if x is None or y is None or x.get("name") != y.get("name"):
            cls = ["skeleton", "missing-or-reordered", (x or y).get("name")]
        else:
            f = sorted(kk for kk in set(x) | set(y) if x.get(kk, "<absent>") != y.get(kk, "<absent>"))[0]
            cls = ["skeleton", "field:" + f, x.get("name")]
        viols.append((cls, "%s: skeleton entry %d: %r -> %r" % (where, i, x, y)))
        return viols
    ba, bb = AJ.cut_blocks(ca), AJ.cut_blocks(cb)
    if len(ba) != len(bb):
        return [(["skeleton", "block-count"], "%s: %d -> %d blocks" % (where, len(ba), len(bb)))]
    pattern = []
    for x, y in zip(ba, bb):
        if x == y:
            pattern.append(0)
            continue
        pattern.append(1)
        stats["replaced_blocks"] += 1
        in_pairs = set((e["name"], e.get("value")) for e in x)
        in_has_push0 = any(e["name"] == "PUSH0" or (e["name"] == "PUSH" and e.get("value") == "0") for e in x)
        for e in y:
            if e in x:
                continue
            w = wellformed(e, in_pairs, desc["push0"], in_has_push0)
            if w is not None:
                viols.append((["malformed-item", w[0]], "%s: %s (%r)" % (where, w[1], e)))
                break
    if any(pattern) and (not all(pattern) or any(e["name"] in AJ.SPLIT_SET for e in ca)):
        stats["mixed_sections"] += 1
        stats["keys"].append(digest([[e["name"] for e in ska], pattern, sorted(desc.items())]))
    return viols


def check_op(op):
    st, res = C.run_child(op)
    summ = {"evals": 0, "keys": [], "probes": {}, "faults": {}, "sim_s": 0.0, "samples": [], "harness": 0, "inconclusive": 0}
    if st != "ok" or res["exc"] is not None:
        summ["inconclusive"] = 1
        summ["probes"]["run_failed_" + (st if st != "ok" else res["exc"]["type"])] = 1
        return summ, []
    summ["sim_s"] = res["sim_time"]
    out = res["files"].get(C.output_path(op))
    if out is None:
        summ["inconclusive"] = 1
        summ["probes"]["no_output"] = 1
        return summ, []
    in_doc = json.loads(op["files"][op["argv"][0]])
    viols = []
    try:
        out_doc = json.loads(out.decode())
    except ValueError as e:
        return summ, [{"class": ["output-not-json"], "detail": str(e), "replay": {"op": op}}]
    vs, stats = compare_docs(op, in_doc, out_doc)
    summ["evals"] = stats["sections"] + 1
    summ["keys"] = stats["keys"]
    summ["probes"]["replaced_blocks"] = stats["replaced_blocks"]
    summ["probes"]["mixed_sections"] = stats["mixed_sections"]
    summ["probes"]["src_" + op["src"].split(":")[0].replace(".json_solc", "")[:12]] = 1
    nfail = sum(1 for c in res["solver_calls"] if c["kind"] != "optimal")
    summ["faults"]["peer_fail"] = nfail
    summ["probes"]["peer_success"] = len(res["solver_calls"]) - nfail
    for cls, detail in vs:
        viols.append({"class": cls, "detail": detail + " | argv " + " ".join(op["argv"][1:]), "replay": {"op": op}})
    rec = res["records"]
    if "reparse_exc" in rec:
        viols.append({"class": ["reparse", "raises"], "detail": rec["reparse_exc"], "replay": {"op": op}})
    elif rec.get("reparse_equal") is False:
        viols.append({"class": ["reparse", "differs"], "detail": "parser(to_json(out)) != out", "replay": {"op": op}})
    if stats["mixed_sections"] and not summ["samples"]:
        summ["samples"].append({"argv": op["argv"][1:], "src": op["src"], "replaced_blocks": stats["replaced_blocks"]})
    if "-log" in op["argv"] and not viols:
        from gsim.checks import c11
        log = res["files"].get(C.log_path(op))
        if log is not None:
            files = dict(op["files"])
            files[C.log_path(op)] = log.decode()
            rop = c11.replay_op(op, files)
            rop["src"], rop["contract"] = op["src"], op.get("contract")
            st2, res2 = C.run_child(rop)
            out2 = res2["files"].get(C.output_path(rop)) if st2 == "ok" and res2["exc"] is None else None
            if out2 is not None:
                summ["probes"]["log_replayed"] = 1
                if '"MCOPY"' in op["files"][op["argv"][0]]:
                    summ["probes"]["replayed_with_unanalysable_block"] = 1
                try:
                    vs2, stats2 = compare_docs(rop, in_doc, json.loads(out2.decode()))
                except ValueError as e:
                    vs2, stats2 = [(["output-not-json", "from-log"], str(e))], {"sections": 0}
                summ["evals"] += stats2["sections"] + 1
                for cls, detail in vs2:
                    viols.append({"class": cls + ["from-log"], "detail": detail + " (replayed from the log) | argv " + " ".join(op["argv"][1:]),
                                  "replay": {"op": op}})
    return summ, viols


def task(spec):
    op = build_op(spec)
    summ, viols = check_op(op)
    summ["violations"] = viols[:3]
    return summ


def replay(rp):
    _, viols = check_op(rp["op"])
    return viols[0] if viols else None
