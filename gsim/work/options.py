"""Option swarm: real CLI flags, drawn per run."""

ENCODER_FLAGS = ["-empty", "-pop-uninterpreted", "-order-bounds", "-order-conflicts", "-at-most", "-pushed-once",
                 "-no-output-before-pop", "-direct-inequalities", "-direct-tout"]
TERM_ENCODINGS = ["int", "stack_vars", "uninterpreted_uf", "uninterpreted_int"]


def draw(rng, backend=None, allow_push_basic=False, solver=None):
    """Returns (argv flags, description dict)."""
    split = rng.choice(["none", "none", "-storage", "-partition"])
    crit = rng.choice(["gas", "gas", "-size", "-length"])
    rules = rng.random() < 0.75
    push0 = rng.random() < 0.7
    backend = backend or rng.choice(["-greedy", "-greedy", "-ub-greedy", "solver"])
    argv = []
    if split != "none":
        argv.append(split)
    if crit != "gas":
        argv.append(crit)
    if not rules:
        argv.append("-no-simplification")
    if not push0:
        argv.append("-push0")
    desc = {"split": split, "crit": crit.lstrip("-"), "rules": rules, "push0": push0, "backend": backend}
    if backend == "-greedy":
        argv.append("-greedy")
    else:
        if backend == "-ub-greedy":
            argv.append("-ub-greedy")
        s = solver or rng.choice(["z3", "z3", "oms"])
        argv += ["-solver", s]
        desc["solver"] = s
        enc = encoder_flags(rng, allow_push_basic)
        argv += enc
        desc["enc"] = enc
    return argv, desc


def encoder_flags(rng, allow_push_basic=False, p=0.25):
    enc = []
    if rng.random() < 0.5:
        enc += ["-term-encoding", rng.choice(TERM_ENCODINGS)]
    if rng.random() < 0.3:
        enc += ["-memory-encoding", rng.choice(["l_vars", "direct"])]
    for f in ENCODER_FLAGS:
        if rng.random() < p:
            enc.append(f)
    if allow_push_basic and rng.random() < 0.1:
        enc.append("-push-basic")
    return enc
