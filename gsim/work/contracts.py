"""Synthetic solc documents (combined-json and --asm-json) built from item blocks."""
from gsim.work import blocks as B


def entry(item, rng=None, pos=0):
    name, value = item
    e = {"begin": 100 + pos, "end": 100 + pos + 7, "name": name, "source": 0}
    if value is not None:
        e["value"] = value
    if name == "JUMP" and rng is not None and rng.random() < 0.6:
        e["jumpType"] = rng.choice(["[in]", "[out]"])
    if rng is not None and rng.random() < 0.1:
        e["modifierDepth"] = 1
    return e


def code_of(block_list, rng, first_tag=1):
    """Concatenate blocks into one .code list; every block but the first starts with a tag (+JUMPDEST)."""
    code = []
    pos = 0
    tag = first_tag
    for bi, items in enumerate(block_list):
        if bi > 0 or rng.random() < 0.3:
            code.append(entry(("tag", str(tag)), None, pos))
            code.append(entry(("JUMPDEST", None), None, pos))
            tag += 1
        for it in items:
            pos += 1
            code.append(entry(it, rng, pos))
    return code


def gen_contract_asm(rng, nblocks_init=2, nblocks_run=4, block_kw=None, blocks=None):
    kw = dict(block_kw or {})
    kw.setdefault("pseudo", True)
    take = (lambda: blocks.pop(0)) if blocks else (lambda: B.gen_block(rng, ending=True, **kw))
    init = [take() for _ in range(nblocks_init)]
    if not blocks and rng.random() < 0.5:
        # the constructor idiom of solc: copy the runtime sub-assembly and return it
        sub = "%064x" % 0
        init.append([("PUSH #[$]", sub), ("DUP1", None), ("PUSH [$]", sub), ("PUSH", "0"), ("CODECOPY", None), ("PUSH", "0"), ("RETURN", None)])
    run = [take() for _ in range(nblocks_run)]
    asm = {".code": code_of(init, rng), ".data": {"0": {".auxdata": "a264%04x" % rng.getrandbits(16),
                                                       ".code": code_of(run, rng)}}}
    if rng.random() < 0.5:
        asm["sourceList"] = ["a.sol", "#utility.yul"]
    if rng.random() < 0.4:
        asm[".data"]["0"][".data"] = {"A1B2": "deadbeef%02x" % rng.getrandbits(8)}
    if rng.random() < 0.3:
        asm[".data"]["ACAF3289D7B601CBD114FB36C4D29C85BBFD5E133F14CB355C3FD8D99367964F"] = "4e487b71"
    if rng.random() < 0.3 and not blocks:
        # a factory: a second code sub-assembly next to the runtime code (what `new Child()` produces)
        extra = [B.gen_block(rng, ending=True, **kw) for _ in range(rng.choice([1, 2]))]
        asm[".data"]["1"] = {".auxdata": "a264%04x" % rng.getrandbits(16), ".code": code_of(extra, rng, first_tag=20)}
        if rng.random() < 0.5:
            asm[".data"]["1"][".data"] = {"0": {".auxdata": "a2", ".code": [entry(("STOP", None))]}}
    return asm


def gen_combined(rng, ncontracts=2, **kw):
    doc = {"contracts": {}, "version": "0.8.17+commit.8df45f5f.Linux.g++"}
    # sometimes names where one is a suffix of another (Math / SafeMath), as in the shipped examples
    family = rng.choice([None, None, ["Math", "SafeMath", "Token"], ["ERC20", "BurnableERC20", "Ownable"]])
    for i in range(ncontracts):
        name = "src/f%d.sol:C%d" % (i, i) if not family else "src/%s.sol:%s" % (family[i % 3].lower(), family[i % 3])
        doc["contracts"][name] = {"asm": gen_contract_asm(rng, **kw)}
    if rng.random() < 0.4:
        doc["contracts"]["src/iface.sol:I"] = {"asm": None}
    return doc
