"""Synthetic solc documents (combined-json and --asm-json) built from item blocks."""
from gsim.work import blocks as B


def entry(item, rng=None, pos=0):
    name, value = item
    e = {"begin": 100 + pos, "end": 100 + pos + 7, "name": name, "source": 0}
    if value is not None:
        e["value"] = value
    if name == "JUMP" and rng is not None and rng.random() < 0.6:
        e["jumpType"] = rng.choice(["[in]", "[out]"])
    if rng is not None and rng.random() < 0.1:
        e["modifierDepth"] = 1
    return e


def code_of(block_list, rng, first_tag=1):
    """Concatenate blocks into one .code list; every block but the first starts with a tag (+JUMPDEST)."""
    code = []
    pos = 0
    tag = first_tag
    for bi, items in enumerate(block_list):
        if bi > 0 or rng.random() < 0.3:
            code.append(entry(("tag", str(tag)), None, pos))
            code.append(entry(("JUMPDEST", None), None, pos))
            tag += 1
        for it in items:
            pos += 1
            code.append(entry(it, rng, pos))
    return code


def gen_contract_asm(rng, nblocks_init=2, nblocks_run=4, block_kw=None, blocks=None):
    kw = dict(block_kw or {})
    kw.setdefault("pseudo", True)
    take = (lambda: blocks.pop(0)) if blocks else (lambda: B.gen_block(rng, ending=True, **kw))
    init = [take() for _ in range(nblocks_init)]
    if not blocks and rng.random() < 0.5:
        # the constructor idiom of solc: copy the runtime sub-assembly and return it
        sub = "%064x" % 0
        init.append([("PUSH #[$]", sub), ("DUP1", None), ("PUSH [$]", sub), ("PUSH", "0"), ("CODECOPY", None), ("PUSH", "0"), ("RETURN", None)])
    run = [take() for _ in range(nblocks_run)]
    asm = {".code": code_of(init, rng), ".data": {"0": {".auxdata": "a264%04x" % rng.getrandbits(16),
                                                       ".code": code_of(run, rng)}}}
    if rng.random() < 0.5:
        asm["sourceList"] = ["a.sol", "#utility.yul"]
    if rng.random() < 0.4:
        asm[".data"]["0"][".data"] = {"A1B2": "deadbeef%02x" % rng.getrandbits(8)}
    if rng.random() < 0.3:
        asm[".data"]["ACAF3289D7B601CBD114FB36C4D29C85BBFD5E133F14CB355C3FD8D99367964F"] = "4e487b71"
    if rng.random() < 0.3 and not blocks:
        # a factory: a second code sub-assembly next to the runtime code (what `new Child()` produces)
        extra = [B.gen_block(rng, ending=True, **kw) for _ in range(rng.choice([1, 2]))]
        asm[".data"]["1"] = {".auxdata": "a264%04x" % rng.getrandbits(16), ".code": code_of(extra, rng, first_tag=20)}
        if rng.random() < 0.5:
            asm[".data"]["1"][".data"] = {"0": {".auxdata": "a2", ".code": [entry(("STOP", None))]}}
        if rng.random() < 0.4:
            # creation code of a child contract: its metadata hangs from its own nested run-time code, it has none itself
            del asm[".data"]["1"][".auxdata"]
    if rng.random() < 0.1 and not blocks:
        del asm[".data"]["0"][".auxdata"]          # --no-cbor-metadata builds, Yul objects
    return asm


def gen_combined(rng, ncontracts=2, **kw):
    doc = {"contracts": {}, "version": "0.8.17+commit.8df45f5f.Linux.g++"}
    # sometimes names where one is a suffix of another (Math / SafeMath), as in the shipped examples
    family = rng.choice([None, None, ["Math", "SafeMath", "Token"], ["ERC20", "BurnableERC20", "Ownable"]])
    for i in range(ncontracts):
        name = "src/f%d.sol:C%d" % (i, i) if not family else "src/%s.sol:%s" % (family[i % 3].lower(), family[i % 3])
        doc["contracts"][name] = {"asm": gen_contract_asm(rng, **kw)}
    if rng.random() < 0.4:
        doc["contracts"]["src/iface.sol:I"] = {"asm": None}
    return doc


def inject_unanalysable(doc, rng, single=False):
    """Insert, in the middle of the runtime code of one contract, a block the tool's parser accepts but whose analysis
    raises on this tree (MCOPY): the block has to come out unchanged, wherever the document goes afterwards.
    Returns the number of blocks inserted."""
    asms = [doc] if single else [v.get("asm") for v in doc.get("contracts", {}).values() if v and v.get("asm")]
    asms = [a for a in asms if a and a.get(".data", {}).get("0", {}).get(".code")]
    if not asms:
        return 0
    code = rng.choice(asms)[".data"]["0"][".code"]
    items = [("PUSH", "20"), ("PUSH", "0"), ("PUSH", "40"), ("MCOPY", None), ("PUSH", "1"), ("PUSH", "2"), ("ADD", None),
             ("PUSH [tag]", str(rng.randrange(1, 9))), ("JUMPI", None)]
    new = [entry(("tag", str(90 + rng.randrange(9))), None, 900), entry(("JUMPDEST", None), None, 900)] + [entry(it, None, 901 + k) for k, it in enumerate(items)]
    # before the last block of the section (a tag starts a block)
    tags = [k for k, e in enumerate(code) if e.get("name") == "tag"]
    at = tags[-1] if tags else len(code)
    code[at:at] = new
    return 1
