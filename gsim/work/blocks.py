"""Seeded block workloads (items = (name, value) pairs; nothing here imports /repo).

Blocks are built from *statements* compiled from expression trees, so they are stack-legal by
construction; the mixture (plain / rule bait / memory bait / split bait / endings) is chosen per
block by the caller's stream (swarm style).
"""
M256 = (1 << 256) - 1

SMALL = [0, 1, 2, 3, 4, 8, 16, 31, 32, 33, 64, 96, 128, 255, 256]
EDGE = [1 << 255, M256, (1 << 160) - 1, (1 << 255) - 1, 1 << 128, M256 - 1, 1 << 160, 0xFF, 0xFFFF,
        0xFFFFFFFF, (1 << 256) - (1 << 160), 1 << 96, 1 << 224]
BIN = ["ADD", "MUL", "SUB", "DIV", "SDIV", "MOD", "SMOD", "EXP", "SIGNEXTEND", "LT", "GT", "SLT", "SGT",
       "EQ", "AND", "OR", "XOR", "BYTE", "SHL", "SHR", "SAR"]
UN = ["ISZERO", "NOT"]
TER = ["ADDMOD", "MULMOD"]
ENV0 = ["ADDRESS", "ORIGIN", "CALLER", "CALLVALUE", "CALLDATASIZE", "CODESIZE", "GASPRICE", "COINBASE",
        "TIMESTAMP", "NUMBER", "DIFFICULTY", "GASLIMIT", "CHAINID", "SELFBALANCE", "BASEFEE",
        "RETURNDATASIZE"]
ENV1 = ["BALANCE", "CALLDATALOAD", "EXTCODESIZE", "EXTCODEHASH", "BLOCKHASH"]
SPLITS = {"LOG0": 2, "LOG1": 3, "LOG2": 4, "LOG3": 5, "LOG4": 6, "CALLDATACOPY": 3, "CODECOPY": 3,
          "EXTCODECOPY": 4, "RETURNDATACOPY": 3, "CALL": 7, "STATICCALL": 6, "DELEGATECALL": 6,
          "CREATE": 3, "CREATE2": 4, "ASSIGNIMMUTABLE": 2, "GAS": 0}
SPLIT_PUSHES = {"CALL", "STATICCALL", "DELEGATECALL", "CREATE", "CREATE2", "GAS"}
PSEUDO = [("PUSH [tag]", True), ("PUSH data", True), ("PUSHLIB", True), ("PUSHIMMUTABLE", True),
          ("PUSH #[$]", True), ("PUSH [$]", True), ("PUSHSIZE", False), ("PUSHDEPLOYADDRESS", False)]

# Rule bait: trees over X, Y, Z (distinct stack slots, X may repeat) and constants.
def _c(v):
    return ("const", v)

X, Y, Z = ("ph", 0), ("ph", 1), ("ph", 2)
K160 = (1 << 160) - 1


def _op(n, *a):
    return ("op", n, list(a))


BAIT = [
    _op("AND", X, _c(0)), _op("AND", _c(0), X), _op("AND", X, X), _op("AND", X, _c(M256)), _op("AND", _c(M256), X),
    _op("OR", X, _c(0)), _op("OR", X, X), _op("OR", X, _c(M256)), _op("XOR", X, X), _op("XOR", X, _c(0)),
    _op("XOR", _c(0), X), _op("EXP", X, _c(0)), _op("EXP", X, _c(1)), _op("EXP", _c(1), X), _op("EXP", _c(0), X),
    _op("EXP", _c(2), X), _op("EXP", _c(2), _c(255)), _op("EXP", _c(2), _c(256)), _op("EXP", _c(3), _c(200)),
    _op("EXP", _c(256), X), _op("EXP", _c(0), _c(0)),
    _op("ADD", X, _c(0)), _op("ADD", _c(0), X), _op("SUB", X, _c(0)), _op("SUB", X, X), _op("SUB", _c(0), X),
    _op("MUL", X, _c(0)), _op("MUL", X, _c(1)), _op("MUL", _c(1), X), _op("MUL", X, _c(2)), _op("MUL", _c(4), X),
    _op("DIV", X, _c(1)), _op("DIV", X, _c(0)), _op("DIV", X, X), _op("DIV", _c(0), X), _op("DIV", X, _c(2)),
    _op("DIV", _c(1), X), _op("DIV", _c(5), _c(0)),
    _op("SDIV", X, _c(1)), _op("SDIV", X, _c(0)), _op("SDIV", X, X), _op("SDIV", _c(1 << 255), _c(M256)),
    _op("SDIV", _c(M256), _c(2)), _op("SDIV", X, _c(M256)),
    _op("MOD", X, _c(1)), _op("MOD", X, X), _op("MOD", X, _c(0)), _op("MOD", _c(7), _c(0)), _op("MOD", X, _c(2)),
    _op("SMOD", X, _c(1)), _op("SMOD", X, X), _op("SMOD", X, _c(0)), _op("SMOD", _c(M256), _c(3)),
    _op("SMOD", _c(M256 - 7), _c(M256 - 2)), _op("SMOD", _c(5), _c(M256 - 2)),
    _op("EQ", X, X), _op("EQ", _c(0), X), _op("EQ", X, _c(0)), _op("EQ", _c(1), _op("ISZERO", X)),
    _op("EQ", _op("ISZERO", X), _c(1)), _op("EQ", X, Y),
    _op("GT", _c(0), X), _op("GT", X, _c(0)), _op("LT", X, _c(0)), _op("LT", _c(0), X), _op("GT", X, X),
    _op("LT", X, X), _op("SGT", X, X), _op("SLT", X, X), _op("GT", _c(1), X), _op("LT", X, _c(1)),
    _op("SLT", _c(M256), _c(0)), _op("SGT", _c(M256), _c(0)), _op("SLT", X, _c(0)), _op("SGT", _c(0), X),
    _op("GT", X, _c(M256)), _op("LT", _c(M256), X), _op("GT", _c(M256), X),
    _op("NOT", _op("NOT", X)), _op("NOT", _c(0)), _op("NOT", _c(M256)), _op("ISZERO", _c(0)), _op("ISZERO", _c(1)),
    _op("ISZERO", _c(2)), _op("ISZERO", _op("ISZERO", X)), _op("ISZERO", _op("ISZERO", _op("ISZERO", X))),
    _op("ISZERO", _op("ISZERO", _op("ISZERO", _op("ISZERO", X)))),
    _op("ISZERO", _op("GT", X, _c(0))), _op("ISZERO", _op("LT", _c(0), X)), _op("ISZERO", _op("ISZERO", _op("GT", X, Y))),
    _op("ISZERO", _op("ISZERO", _op("LT", X, Y))), _op("ISZERO", _op("ISZERO", _op("EQ", X, Y))),
    _op("ISZERO", _op("ISZERO", _op("SGT", X, Y))), _op("ISZERO", _op("ISZERO", _op("SLT", X, Y))),
    _op("ISZERO", _op("XOR", X, Y)), _op("ISZERO", _op("SUB", X, Y)), _op("ISZERO", _op("EQ", X, _c(0))),
    _op("ISZERO", _op("ISZERO", _op("ISZERO", _op("EQ", X, Y)))),
    _op("SHL", _c(0), X), _op("SHR", _c(0), X), _op("SAR", _c(0), X), _op("SHL", X, _c(0)), _op("SHR", X, _c(0)),
    _op("SAR", X, _c(0)), _op("SHL", _c(256), X), _op("SHR", _c(256), X), _op("SAR", _c(256), X),
    _op("SAR", _c(300), _c(M256)), _op("SHL", _c(255), _c(3)), _op("SAR", _c(1), _c(1 << 255)),
    _op("SHR", _c(4), _c(M256)), _op("SHL", _c(M256), X), _op("SAR", _c(255), X),
    _op("AND", X, _op("AND", X, Y)), _op("AND", _op("AND", X, Y), X), _op("AND", _op("AND", Y, X), X),
    _op("OR", X, _op("AND", X, Y)), _op("OR", _op("OR", X, Y), Y), _op("OR", X, _op("OR", X, Y)),
    _op("AND", X, _op("OR", X, Y)), _op("AND", _op("OR", X, Y), Y),
    _op("XOR", X, _op("XOR", X, Y)), _op("XOR", _op("XOR", X, Y), Y), _op("XOR", _op("XOR", Y, X), Y),
    _op("AND", X, _op("NOT", X)), _op("OR", X, _op("NOT", X)), _op("AND", _op("NOT", X), X),
    _op("AND", ("env", "ORIGIN"), _c(K160)), _op("AND", _c(K160), ("env", "CALLER")),
    _op("AND", ("env", "ADDRESS"), _c(K160)), _op("AND", _c(K160), ("env", "COINBASE")),
    _op("AND", ("env", "ADDRESS"), _c(1 << 160)), _op("AND", ("env", "CALLVALUE"), _c(K160)),
    _op("AND", _c(K160), X), _op("AND", _c(K160), _op("AND", _c(K160), X)),
    _op("BALANCE", ("env", "ADDRESS")), _op("BALANCE", _op("AND", _c(K160), X)),
    _op("MUL", X, _op("SHL", Y, _c(1))), _op("MUL", _op("SHL", X, _c(1)), Y), _op("DIV", X, _op("SHL", Y, _c(1))),
    _op("MUL", _op("SHL", _c(1), X), Y),
    _op("AND", _op("SHL", X, Y), _op("SHL", X, Z)), _op("AND", _op("SHR", X, Y), _op("SHR", X, Z)),
    _op("SIGNEXTEND", _c(0), _c(0x80)), _op("SIGNEXTEND", _c(31), X), _op("SIGNEXTEND", _c(32), X),
    _op("SIGNEXTEND", _c(1), _c(0x8000)), _op("SIGNEXTEND", _c(M256), X),
    _op("BYTE", _c(31), X), _op("BYTE", _c(32), X), _op("BYTE", _c(0), _c(M256)), _op("BYTE", _c(31), _c(0x1234)),
    _op("ADDMOD", X, Y, _c(0)), _op("MULMOD", X, Y, _c(0)), _op("ADDMOD", _c(M256), _c(M256), _c(7)),
    _op("MULMOD", _c(M256), _c(M256), _c(12)), _op("ADDMOD", _c(1), _c(2), _c(0)), _op("ADDMOD", X, _c(0), Y),
    _op("ADD", _c(M256), _c(1)), _op("SUB", _c(0), _c(1)), _op("MUL", _c(1 << 255), _c(2)), _op("ADD", _c(1), _op("ADD", _c(2), X)),
    _op("SUB", _op("ADD", X, Y), Y), _op("ADD", _op("SUB", X, Y), Y), _op("SUB", X, _op("SUB", X, Y)),
    _op("ISZERO", _op("LT", X, Y)), _op("ISZERO", _op("GT", X, Y)), _op("GT", _op("ISZERO", X), _c(0)),
    _op("LT", _c(0), _op("ISZERO", X)), _op("EQ", _op("ISZERO", X), _c(0)),
    # two terms over the same operands in one block (a rule that rewrites one of them meets the other one)
    _op("AND", _op("ISZERO", X), _op("EQ", X, _c(0))), _op("OR", _op("EQ", _c(0), X), _op("ISZERO", X)),
    _op("ADD", _op("LT", X, Y), _op("GT", Y, X)), _op("XOR", _op("ISZERO", _op("ISZERO", X)), _op("ISZERO", X)),
    _op("ADD", _op("SUB", X, Y), _op("ISZERO", _op("SUB", X, Y))), _op("OR", _op("AND", X, Y), _op("AND", Y, X)),
    _op("ADD", _op("EQ", X, Y), _op("ISZERO", _op("XOR", X, Y))), _op("SUB", _op("NOT", _op("NOT", X)), _op("NOT", X)),
]

# used by the deterministic sweeps only (the block grammar keeps drawing from BAIT, so its random streams do not move)
BAIT_NEAR = [
    # near misses of the rules that match two operands of two terms: the shared operand sits in the other position, so the
    # rule must NOT fire (a matcher that asks "does the operand occur" instead of "is it the same position" fires here)
    _op("AND", _op("SHL", X, Y), _op("SHL", Z, X)), _op("AND", _op("SHL", Y, X), _op("SHL", X, Z)),
    _op("AND", _op("SHL", X, Y), _op("SHL", Y, X)), _op("AND", _op("SHR", X, Y), _op("SHR", Z, X)),
    _op("AND", _op("SHL", _c(1), Y), _op("SHL", Z, _c(1))), _op("AND", _op("SHR", Y, _c(2)), _op("SHR", _c(2), Z)),
    _op("AND", _op("SHL", X, Y), _op("SHR", X, Z)),
    _op("MUL", X, _op("SHL", _c(1), Y)), _op("DIV", X, _op("SHL", _c(1), Y)), _op("DIV", _op("SHL", Y, _c(1)), X),
    _op("EQ", _c(2), _op("ISZERO", X)), _op("GT", X, _c(1)), _op("LT", _c(1), X),
    _op("AND", X, _op("NOT", Y)), _op("OR", _op("OR", X, Y), Z), _op("XOR", X, _op("XOR", Y, Z)),
    _op("ISZERO", _op("ISZERO", _op("SUB", X, Y))), _op("SUB", _op("ADD", X, Y), Z),
]


def pseudo_operand(r, name):
    """Operand spellings as solc writes them (see the shipped examples)."""
    if name in ("PUSH [tag]",):
        return str(r.randrange(1, 40))
    if name in ("PUSH #[$]", "PUSH [$]"):
        return "%064x" % r.choice([0, 0, 1, 2, 10, 11, 16, 255])
    if name == "PUSH data":
        return r.choice(["%064X" % r.getrandbits(256), "0A%062X" % r.getrandbits(248), "%064X" % r.getrandbits(200)])
    if name == "PUSHLIB":
        return r.choice(["%064x" % r.getrandbits(256), "__$%030x$__" % r.getrandbits(120)]) if False else "%064x" % r.getrandbits(256)
    if name in ("PUSHIMMUTABLE", "ASSIGNIMMUTABLE"):
        return str(r.choice([216, 218, 220, 689, 1167, 0xabc if False else 1168]))
    return "%x" % r.randrange(1, 64)


class Gen:
    def __init__(self, rng, profile=None):
        self.rng = rng
        self.items = []
        self.h = 0
        self.p = profile or {}
        self.tag_n = 0
        self.addr_pool = []
        self.pseudo_pool = {}

    # ---- emission ----------------------------------------------------------------------
    def emit(self, name, value=None, pops=0, pushes=0):
        self.items.append((name, value))
        self.h += pushes - pops

    def const(self):
        r = self.rng
        x = r.random()
        if x < 0.45:
            return r.choice(SMALL)
        if x < 0.7:
            return r.choice(EDGE)
        if x < 0.85:
            return r.getrandbits(r.choice([8, 16, 32, 64, 160, 255, 256]))
        return (r.choice(SMALL + EDGE) + r.choice([1, -1, 31, 32])) & M256

    def push_const(self, v):
        self.emit("PUSH", "%x" % (v & M256), 0, 1)

    # ---- expression trees --------------------------------------------------------------
    def leaf(self, h0):
        r = self.rng
        x = r.random()
        if h0 > 0 and x < 0.5:
            return ("slot", r.randrange(max(0, h0 - 14), h0))
        if x < 0.85:
            return ("const", self.const())
        if not self.p.get("pseudo") or x < 1.0 - self.p.get("pseudo_rate", 0.05):
            return ("env", r.choice(ENV0))
        name, hasv = r.choice(PSEUDO)
        return ("pseudo", name, self.pseudo_value(name) if hasv else None)

    def pseudo_value(self, name):
        """Operands come from a small pool per block, so that the same library, tag or data item is
        pushed more than once (the tool numbers PUSHLIB operands per block by distinct value)."""
        r = self.rng
        pool = self.pseudo_pool.setdefault(name, [])
        if pool and r.random() < 0.5:
            return r.choice(pool)
        v = pseudo_operand(r, name)
        pool.append(v)
        return v

    def tree(self, h0, depth):
        r = self.rng
        if depth <= 0 or r.random() < 0.25:
            return self.leaf(h0)
        x = r.random()
        if x < 0.35 * self.p.get("bait", 1.0):
            t = self.instantiate(r.choice(BAIT), h0, depth)
            # sometimes the inner term of a nested pattern also survives on the stack (the rule can rewrite the outer
            # instruction but cannot drop the inner one)
            return ("keepinner", t) if r.random() < 0.2 else t
        if x < 0.8:
            return ("op", r.choice(BIN), [self.tree(h0, depth - 1), self.tree(h0, depth - 1)])
        if x < 0.9:
            return ("op", r.choice(UN), [self.tree(h0, depth - 1)])
        if x < 0.94:
            return ("op", r.choice(TER), [self.tree(h0, depth - 1) for _ in range(3)])
        if x < 0.955:
            return ("op", r.choice(ENV1), [self.tree(h0, depth - 1)])
        if x < 0.98:
            # a value used twice by one instruction (DUP1 after the value)
            return ("twice", r.choice(["ADD", "MUL", "SUB", "AND", "LT", "EQ", "XOR"]), self.tree(h0, depth - 1))
        return self.load_tree(h0)

    def killed(self, t):
        """t computed and then cancelled by a rule (the instruction is in the block, its value is not needed)."""
        r = self.rng
        x = r.random()
        if x < 0.3:
            return ("op", "MUL", [t, ("const", 0)])
        if x < 0.55:
            return ("op", "AND", [("const", 0), t])
        if x < 0.8:
            return ("twice", r.choice(["SUB", "XOR"]), t)
        return ("op", "MUL", [("const", 0), t])

    def instantiate(self, t, h0, depth):
        r = self.rng
        subs = {}

        def go(t):
            if t[0] == "ph":
                if t[1] not in subs:
                    subs[t[1]] = self.leaf(h0) if depth <= 1 or r.random() < 0.7 else self.tree(h0, depth - 2)
                    if subs[t[1]][0] == "const" and r.random() < 0.7 and h0 > 0:
                        subs[t[1]] = ("slot", r.randrange(max(0, h0 - 14), h0))
                return subs[t[1]]
            if t[0] == "op":
                return ("op", t[1], [go(c) for c in t[2]])
            return t
        return go(t)

    def addr_tree(self, h0):
        r = self.rng
        x = r.random()
        if self.addr_pool and x < 0.35:
            return r.choice(self.addr_pool)
        if x < 0.6:
            t = ("const", r.choice([0, 0, 32, 64, 96, 16, 1, 31, 33, 63, 65, 128, 4, 0x40, 0x60, r.randrange(0, 100)]))
        elif x < 0.8 and h0 > 0:
            t = ("slot", r.randrange(max(0, h0 - 14), h0))
        elif x < 0.92 and h0 > 0:
            s = ("slot", r.randrange(max(0, h0 - 14), h0))
            t = ("op", "ADD", [("const", r.choice([1, 31, 32, 64, 0x20, 4])), s]) if r.random() < 0.7 else \
                ("op", "AND", [("const", r.choice([0xFF, 0xFFE0, 31])), s])
        else:
            t = self.tree(h0, 1)
        self.addr_pool.append(t)
        return t

    def load_tree(self, h0):
        r = self.rng
        x = r.random()
        if x < 0.45:
            return ("op", "MLOAD", [self.addr_tree(h0)])
        if x < 0.8:
            return ("op", "SLOAD", [self.addr_tree(h0)])
        return ("op", "KECCAK256", [self.addr_tree(h0), ("const", r.choice([0, 1, 32, 64, 31, 33]))])

    def compile(self, t):
        """Emit code leaving the value of t on top of the stack."""
        k = t[0]
        if k == "const":
            self.push_const(t[1])
        elif k == "slot":
            d = self.h - t[1]
            if 1 <= d <= 16:
                self.emit("DUP%d" % d, None, d, d + 1)
            else:
                self.push_const(t[1] & 0xFF)
        elif k == "env":
            self.emit(t[1], None, 0, 1)
        elif k == "pseudo":
            self.emit(t[1], t[2], 0, 1)
        elif k == "keepinner":
            u = t[1]
            nested = [i for i, a in enumerate(u[2]) if a[0] == "op"] if u[0] == "op" else []
            if not nested or len(u[2]) > 2:
                self.compile(u)
            else:
                p = nested[-1]
                args = u[2]
                if len(args) == 1:
                    self.compile(args[0])
                    self.emit("DUP1", None, 1, 2)
                elif p == 1:
                    self.compile(args[1])
                    self.emit("DUP1", None, 1, 2)
                    self.compile(args[0])
                else:
                    self.compile(args[0])
                    self.emit("DUP1", None, 1, 2)
                    self.compile(args[1])
                    self.emit("SWAP1", None, 2, 2)
                self.emit(u[1], None, len(args), 1)
        elif k == "twice":
            self.compile(t[2])
            self.emit("DUP1", None, 1, 2)
            self.emit(t[1], None, 2, 1)
        else:
            name, args = t[1], t[2]
            for a in reversed(args):
                self.compile(a)
            self.emit(name, None, len(args), 1)

    # ---- statements ---------------------------------------------------------------------
    def st_expr(self):
        h0 = self.h
        self.compile(self.tree(h0, self.rng.choice([1, 2, 2, 3])))

    def st_load(self):
        r = self.rng
        t = self.load_tree(self.h)
        x = r.random()
        if x < 0.2:
            t = self.killed(t)
        elif x < 0.3:
            t = ("twice", r.choice(["ADD", "MUL", "LT", "OR"]), t)
        self.compile(t)

    def st_store(self):
        r = self.rng
        h0 = self.h
        if r.random() < 0.1:
            # dead-load sandwich: store, a load of the same position whose value a rule cancels, then a store that
            # overwrites the first one (which is dead only once the load has gone)
            mem = r.random() < 0.6
            addr = self.addr_tree(h0)
            first, second = (r.choice([("MSTORE", "MSTORE"), ("MSTORE8", "MSTORE8"), ("MSTORE8", "MSTORE"), ("MSTORE", "MSTORE8")])
                             if mem else ("SSTORE", "SSTORE"))
            self.compile(self.leaf(h0))
            self.compile(addr)
            self.emit(first, None, 2, 0)
            self.compile(self.killed(("op", "MLOAD" if mem else "SLOAD", [addr])))
            if r.random() < 0.5:
                self.emit("POP", None, 1, 0)
            self.compile(self.tree(self.h, 1) if r.random() < 0.5 else self.leaf(self.h))
            self.compile(addr)
            self.emit(second, None, 2, 0)
            return
        name = r.choice(["MSTORE", "MSTORE", "MSTORE8", "SSTORE", "SSTORE"])
        val = self.tree(h0, 1) if r.random() < 0.6 else self.leaf(h0)
        addr = self.addr_tree(h0)
        self.compile(val)
        self.compile(addr)
        self.emit(name, None, 2, 0)

    def st_stack(self):
        r = self.rng
        x = r.random()
        if self.h >= 2 and x < 0.5:
            k = r.randrange(1, min(self.h - 1, 16) + 1)
            self.emit("SWAP%d" % k, None, k + 1, k + 1)
        elif self.h >= 1 and x < 0.75:
            k = r.randrange(1, min(self.h, 16) + 1)
            self.emit("DUP%d" % k, None, k, k + 1)
        elif self.h >= 1:
            self.emit("POP", None, 1, 0)
        else:
            self.push_const(self.const())

    def st_split(self):
        r = self.rng
        name = r.choice(list(SPLITS))
        if name == "ASSIGNIMMUTABLE" and not self.p.get("pseudo"):
            name = "LOG1"
        n = SPLITS[name]
        h0 = self.h
        for _ in range(n):
            if r.random() < 0.6:
                self.compile(self.leaf(h0))
            else:
                self.compile(("const", r.choice([0, 0x20, 0x40, 4, 0x80])))
        value = None
        if name == "ASSIGNIMMUTABLE":
            value = self.pseudo_value(name)
        self.emit(name, value, n, 1 if name in SPLIT_PUSHES else 0)

    def ending(self):
        r = self.rng
        x = r.random()
        def dest():
            if self.p.get("pseudo"):
                self.emit("PUSH [tag]", str(r.randrange(1, 40)), 0, 1)
            else:
                self.push_const(r.randrange(1, 400))
        if x < 0.25:
            dest()
            self.emit("JUMP", None, 1, 0)
        elif x < 0.45:
            if self.h < 1:
                self.push_const(self.const())
            dest()
            self.emit("JUMPI", None, 2, 0)
        elif x < 0.55:
            self.emit("STOP")
        elif x < 0.8:
            for _ in range(2):
                self.compile(self.leaf(self.h) if r.random() < 0.5 else ("const", r.choice([0, 0x20, 0x40])))
            self.emit(r.choice(["RETURN", "REVERT"]), None, 2, 0)
        elif x < 0.9 and self.h >= 1:
            self.emit("JUMP", None, 1, 0)
        else:
            self.emit("INVALID")


PROFILES = {
    "plain": {"expr": 5, "stack": 4, "store": 1, "load": 1, "split": 0.3, "bait": 0.3},
    "rules": {"expr": 8, "stack": 2, "store": 0.5, "load": 0.5, "split": 0.1, "bait": 2.2},
    "memory": {"expr": 2, "stack": 2, "store": 5, "load": 4, "split": 0.2, "bait": 0.5},
    "split": {"expr": 3, "stack": 2, "store": 2, "load": 1, "split": 2.5, "bait": 0.5},
    "nasty": {"expr": 9, "stack": 2, "store": 0.6, "load": 0.6, "split": 0.3, "bait": 3.0},
    "stack": {"expr": 1, "stack": 8, "store": 0.3, "load": 0.3, "split": 0.1, "bait": 0.3},
}


def gen_block(rng, profile=None, length=None, depth=None, ending=None, pseudo=False, splits=True):
    """One block as a list of items.  `profile` names a PROFILES entry (default: drawn)."""
    pname = profile or rng.choice(["plain", "rules", "rules", "memory", "memory", "split", "stack"])
    prof = dict(PROFILES[pname])
    prof["pseudo"] = pseudo
    if pseudo:
        prof["pseudo_rate"] = rng.choice([0.05, 0.05, 0.15, 0.3])
    if not splits:
        prof["split"] = 0
    g = Gen(rng, prof)
    g.h = depth if depth is not None else rng.choice([0, 1, 2, 2, 3, 3, 4, 5, 6, 8, 12, 17])
    length = length or rng.choice([3, 5, 8, 8, 12, 12, 16, 20, 24, 30])
    kinds = ["expr", "stack", "store", "load", "split"]
    weights = [prof[k] for k in kinds]
    guard = 0
    while len(g.items) < length and guard < 200:
        guard += 1
        k = rng.choices(kinds, weights)[0]
        if g.h > 40:
            k = "store" if rng.random() < 0.5 else "stack"
        getattr(g, "st_" + k)()
    end = ending if ending is not None else (rng.random() < 0.3)
    if end:
        g.ending()
    return g.items


def sweep_blocks(vocab=None, max_len=3):
    """All blocks of length <= max_len over a small fixed vocabulary (used for small instances)."""
    vocab = vocab or [("PUSH", "0"), ("PUSH", "1"), ("PUSH", "20"), ("DUP1", None), ("DUP2", None),
                      ("SWAP1", None), ("POP", None), ("ADD", None), ("SUB", None), ("ISZERO", None),
                      ("MSTORE", None), ("MLOAD", None)]
    out = []

    def rec(prefix):
        if prefix:
            out.append(list(prefix))
        if len(prefix) == max_len:
            return
        for it in vocab:
            rec(prefix + [it])
    rec([])
    return out


# ---- shrinking -------------------------------------------------------------------------------

def shrink_candidates(items):
    """Smaller variants of a block: drop spans, simplify constants, lower DUP/SWAP indices."""
    n = len(items)
    for span in (8, 4, 2, 1):
        if span >= n:
            continue
        for i in range(0, n - span + 1):
            yield items[:i] + items[i + span:]
    for i, (name, value) in enumerate(items):
        if name == "PUSH" and value not in ("0", "1"):
            for nv in ("0", "1", "20"):
                if nv != value:
                    yield items[:i] + [("PUSH", nv)] + items[i + 1:]
        if name.startswith("DUP") and name != "DUP1":
            yield items[:i] + [("DUP%d" % (int(name[3:]) - 1), None)] + items[i + 1:]
        if name.startswith("SWAP") and name != "SWAP1":
            yield items[:i] + [("SWAP%d" % (int(name[4:]) - 1), None)] + items[i + 1:]
