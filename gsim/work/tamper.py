"""Tampering operators for stored logs (C11) and for solver replies (C05 corrupt peer)."""
import json
import re


def seq_mutations(rng, ids, all_ids):
    """Seeded single edits of an instruction-id sequence.  Returns (new list, operator name)."""
    ids = list(ids)
    n = len(ids)
    ops = ["swap_adjacent", "substitute", "substitute_similar", "delete", "duplicate", "dupswap_index", "insert_foreign", "permute", "drop_pop"]
    op = rng.choice(ops)
    if n == 0:
        op = "insert_foreign"
    if op == "swap_adjacent" and n >= 2:
        i = rng.randrange(n - 1)
        ids[i], ids[i + 1] = ids[i + 1], ids[i]
    elif op == "substitute" and n >= 1:
        i = rng.randrange(n)
        pool = [x for x in all_ids if x != ids[i]] or ["POP"]
        ids[i] = rng.choice(pool)
    elif op == "substitute_similar" and n >= 1:
        # replace an id by another id of the same family (another PUSH-like id, another store, the signed twin ...):
        # the substitutions a checker is most likely to conflate
        fam = lambda x: "PUSH" if x.startswith("PUSH") else re.sub(r"[0-9_]+$", "", x)[-5:]
        idx = [i for i, x in enumerate(ids) if any(y != x and fam(y) == fam(x) for y in all_ids)]
        if idx:
            i = rng.choice(idx)
            ids[i] = rng.choice([y for y in all_ids if y != ids[i] and fam(y) == fam(ids[i])])
        else:
            i = rng.randrange(n)
            ids[i] = rng.choice([x for x in all_ids if x != ids[i]] or ["POP"])
    elif op == "delete" and n >= 1:
        del ids[rng.randrange(n)]
    elif op == "duplicate" and n >= 1:
        i = rng.randrange(n)
        ids.insert(i, ids[i])
    elif op == "dupswap_index":
        idx = [i for i, x in enumerate(ids) if re.fullmatch(r"(DUP|SWAP)\d+", x)]
        if idx:
            i = rng.choice(idx)
            m = re.fullmatch(r"(DUP|SWAP)(\d+)", ids[i])
            k = int(m.group(2))
            k2 = rng.choice([x for x in (k - 1, k + 1, k + 2) if 1 <= x <= 16] or [1])
            ids[i] = "%s%d" % (m.group(1), k2)
        else:
            op = "insert_foreign"
            ids.insert(rng.randrange(n + 1), rng.choice(list(all_ids) or ["POP"]))
    elif op == "insert_foreign":
        ids.insert(rng.randrange(n + 1), rng.choice(list(all_ids) + ["POP", "DUP1", "SWAP1"]))
    elif op == "permute" and n >= 2:
        rng.shuffle(ids)
    elif op == "drop_pop":
        idx = [i for i, x in enumerate(ids) if x == "POP"]
        if idx:
            del ids[rng.choice(idx)]
        elif n:
            del ids[rng.randrange(n)]
            op = "delete"
    return ids, op


def tamper_log(rng, log_text, foreign_logs=()):
    """One seeded tampering of a stored log.  Returns (new text, operator)."""
    kind = rng.choice(["ids", "ids", "ids", "ids", "keys_swap", "key_rename", "truncate", "bitflip", "bitflip", "foreign",
                       "ids_foreign_block"])
    try:
        log = json.loads(log_text)
    except ValueError:
        log = None
    if kind == "truncate" or log is None:
        cut = rng.randrange(len(log_text) + 1)
        return log_text[:cut], "truncate"
    if kind == "bitflip":
        b = bytearray(log_text.encode())
        if not b:
            return "", "truncate"
        # prefer flips inside digits of DUPk/SWAPk (one bit away from another valid id)
        cand = [m.start(2) for m in re.finditer(r"(DUP|SWAP)(\d)", log_text)]
        pos = rng.choice(cand) if cand and rng.random() < 0.7 else rng.randrange(len(b))
        b[pos] ^= 1 << rng.randrange(3)
        return b.decode("latin-1"), "bitflip"
    if kind == "foreign" and foreign_logs:
        return rng.choice(list(foreign_logs)), "foreign-log"
    keys = list(log)
    if not keys:
        return log_text + " ", "noop-empty-log"
    all_ids = sorted({i for v in log.values() for i in v})
    if kind == "keys_swap" and len(keys) >= 2:
        a, b = rng.sample(keys, 2)
        log[a], log[b] = log[b], log[a]
        return json.dumps(log), "keys-swap"
    if kind == "key_rename":
        k = rng.choice(keys)
        v = log.pop(k)
        m = re.match(r"(.*_)(\d+)_(\d+)$", k)
        nk = "%s%d_%s" % (m.group(1), int(m.group(2)) + rng.choice([1, -1, 2]), m.group(3)) if m else k + "x"
        log[nk] = v
        return json.dumps(log), "key-rename"
    if kind == "ids_foreign_block" and len(keys) >= 2:
        a, b = rng.sample(keys, 2)
        ids = list(log[a])
        if log[b]:
            ids.insert(rng.randrange(len(ids) + 1), rng.choice(log[b]))
        log[a] = ids
        return json.dumps(log), "ids:insert-from-other-block"
    k = rng.choice(keys)
    n_edits = rng.choice([1, 1, 2, 3])
    names = []
    ids = log[k]
    for _ in range(n_edits):
        ids, op = seq_mutations(rng, ids, all_ids)
        names.append(op)
    log[k] = ids
    return json.dumps(log), "ids:" + names[0]


def make_reply_mutator(spec, records):
    """Corrupt peer (C05): returns f(reply, call record, smt2 text) -> reply with the decoded id sequence mutated.
    spec = {"seed": int, "calls": [indices to corrupt] or None}"""
    import random
    rng = random.Random(spec.get("seed", 0))
    state = {"n": 0}

    def mutate(reply, rec, smt2):
        state["n"] += 1
        calls = spec.get("calls")
        if calls is not None and state["n"] - 1 not in calls:
            return reply
        if not reply.startswith("sat"):
            return reply
        # t_j assignments as they appear in the reply (z3 multi-line or oms single-line)
        pat = re.compile(r"(\(define-fun (t_\d+) \(\) \S+\s+)([^()\s]+)(\))")
        items = [(m.start(3), m.end(3), m.group(2), m.group(3)) for m in pat.finditer(reply)]
        if len(items) < 2:
            return reply
        vals = [v for _, _, _, v in items]
        op = rng.choice(["swap", "copy", "swap", "rotate"])
        new = list(vals)
        if op == "swap":
            i = rng.randrange(len(new) - 1)
            new[i], new[i + 1] = new[i + 1], new[i]
        elif op == "copy":
            i, j = rng.sample(range(len(new)), 2)
            new[i] = new[j]
        else:
            new = new[1:] + new[:1]
        if new == vals:
            return reply
        out = []
        last = 0
        for (s, e, name, v), nv in zip(items, new):
            out.append(reply[last:s])
            out.append(nv)
            last = e
        out.append(reply[last:])
        records.setdefault("reply_mutations", []).append({"block": rec.get("block"), "op": op})
        return "".join(out)
    return mutate


def targeted_tampers(log_text, limit=3):
    """Deterministic tamperings aimed at the operands of stores: in the first entries that contain a store id, the two ids in
    front of it are exchanged (address and value swap, or another value reaches the store), and a PUSH id in front of it is
    replaced by another PUSH id of the log.  Returns [(text, operator)]."""
    try:
        log = json.loads(log_text)
    except ValueError:
        return []
    out = []
    pushes = sorted({i for v in log.values() for i in v if i.startswith("PUSH")})
    for k in sorted(log):
        ids = log[k]
        pos = [j for j, x in enumerate(ids) if re.match(r"(MSTORE8?|SSTORE)_\d+$", x)]
        if not pos:
            continue
        j = pos[0]
        if j >= 2 and ids[j - 1] != ids[j - 2]:
            new = dict(log)
            seq = list(ids)
            seq[j - 1], seq[j - 2] = seq[j - 2], seq[j - 1]
            new[k] = seq
            out.append((json.dumps(new), "ids:swap_before_store"))
        cand = [q for q in range(max(0, j - 3), j) if ids[q].startswith("PUSH")]
        other = [p for p in pushes if cand and p != ids[cand[-1]]]
        if cand and other:
            new = dict(log)
            seq = list(ids)
            seq[cand[-1]] = other[0]
            new[k] = seq
            out.append((json.dumps(new), "ids:push_before_store"))
        if len(out) >= limit:
            break
    return out[:limit]


def later_subblock_tampers(log_text, limit=4):
    """Deterministic tamperings of the entries of sub-blocks that are NOT the first of their block (key ..._block_N_K, K >= 1):
    the index of a DUPk / SWAPk id is moved by one.  A checker that carries anything over from the sub-blocks it has already
    compared (names of stack variables are local to a sub-block) accepts these when the sub-blocks repeat the same code."""
    try:
        log = json.loads(log_text)
    except ValueError:
        return []
    out = []
    for k in sorted(log):
        m = re.match(r".*_(\d+)$", k)
        if not m or int(m.group(1)) < 1:
            continue
        ids = log[k]
        for j, x in enumerate(ids):
            mm = re.fullmatch(r"(DUP|SWAP)(\d+)", x)
            if not mm:
                continue
            for d in (-1, 1):
                q = int(mm.group(2)) + d
                if not 1 <= q <= 16:
                    continue
                new = dict(log)
                seq = list(ids)
                seq[j] = "%s%d" % (mm.group(1), q)
                new[k] = seq
                out.append((json.dumps(new), "ids:later_subblock_%s_index" % mm.group(1).lower()))
                if len(out) >= limit:
                    return out
    return out
