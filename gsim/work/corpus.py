"""The shipped examples as a workload: whole documents, windows of real code, and single blocks."""
import json
import os

from gsim.ref import asmjson as AJ

REPO = os.environ.get("GASOL_REPO", "/repo")
_cache = {}


def files():
    d = os.path.join(REPO, "examples", "jsons-solc")
    return sorted(os.path.join(d, f) for f in os.listdir(d) if f.endswith(".json_solc"))


def load(path):
    if path not in _cache:
        with open(path) as f:
            _cache[path] = json.load(f)
    return _cache[path]


def window_doc(rng, nblocks=6, path=None):
    """A reduced combined-json: one real contract whose run code is a window of consecutive real blocks
    (metadata, data sections and the other keys kept as they are)."""
    fs = files()
    path = path or rng.choice(fs)
    doc = load(path)
    names = [k for k, v in doc["contracts"].items() if v.get("asm")]
    k = rng.choice(names)
    asm = json.loads(json.dumps(doc["contracts"][k]["asm"]))
    for dk, dv in asm.get(".data", {}).items():
        if isinstance(dv, dict) and ".code" in dv:
            bl = AJ.cut_blocks(dv[".code"])
            if len(bl) > nblocks:
                s = rng.randrange(0, len(bl) - nblocks)
                dv[".code"] = [e for b in bl[s:s + nblocks] for e in b]
    bl = AJ.cut_blocks(asm[".code"])
    if len(bl) > 3:
        s = rng.randrange(0, len(bl) - 3)
        asm[".code"] = [e for b in bl[s:s + 3] for e in b]
    out = {"contracts": {k: {"asm": asm}}, "version": doc["version"]}
    return out, os.path.basename(path)


def all_blocks(limit_files=None):
    """Every basic block of the shipped examples as item lists (deterministic order)."""
    out = []
    for p in files()[:limit_files]:
        doc = load(p)
        for k, asm in AJ.contracts_of(doc):
            if not asm:
                continue
            for path, code in AJ.code_sections(asm):
                for b in AJ.cut_blocks(code):
                    out.append(AJ.items_of_code(b))
    return out


def sample_blocks(rng, n, min_len=3, max_len=40):
    key = ("blocks", min_len, max_len)      # (the filter is part of the key: one pool per caller's bounds)
    if key not in _cache:
        _cache[key] = [b for b in all_blocks() if min_len <= len(AJ.optimizable(b)) <= max_len]
    pool = _cache[key]
    return [pool[rng.randrange(len(pool))] for _ in range(n)]
