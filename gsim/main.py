import argparse
import importlib
import os
import sys


def main():
    ap = argparse.ArgumentParser()
    ap.add_argument("what")
    ap.add_argument("--tier", default=os.environ.get("VERIF_TIER", "quick"))
    ap.add_argument("--replay")
    a = ap.parse_args()
    what = a.what
    from gsim.core import seams
    seams.load_repo()      # pristine import
    from gsim.core import procs
    procs.snapshot_repo()  # import-time state every run starts from (forked child or in-process restore)
    if what.startswith("selftest"):
        from gsim import selftest
        sys.exit(selftest.run(what, a.tier))
    mod = importlib.import_module("gsim.checks." + what.lower())
    from gsim.core import driver
    try:
        rc = driver.run_check(mod, a.tier, a.replay)
    except KeyboardInterrupt:
        rc = 3
    sys.stdout.flush()
    sys.exit(rc)


main()
