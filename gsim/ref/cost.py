"""R4 -- independent cost model (bytes / static gas / length) for item sequences.

Own transcription of solc's AssemblyItem::bytesRequired and of the static fee schedule the README
calls "estimated" (Berlin access lists, Shanghai PUSH0): dynamic parts (memory expansion, copy
sizes, EXP exponent width, SSTORE original-value cases) are fixed to their documented static
approximation because they are functions of the machine state.  Warm/cold accesses are decided
by symbolic key identity modulo commutativity, from an own symbolic stack walk; every block starts
cold.  Nothing here imports /repo.
"""
from gsim.ref import evm

COMMUT = {"ADD", "MUL", "AND", "OR", "XOR", "EQ"}

BASE = {"ADDRESS", "ORIGIN", "CALLER", "CALLVALUE", "CALLDATASIZE", "CODESIZE", "GASPRICE", "COINBASE",
        "TIMESTAMP", "NUMBER", "DIFFICULTY", "PREVRANDAO", "BASEFEE", "GASLIMIT", "POP", "PC", "MSIZE", "GAS",
        "RETURNDATASIZE", "CHAINID", "PUSH0"}
VERYLOW = {"ADD", "SUB", "NOT", "LT", "GT", "SLT", "SGT", "EQ", "ISZERO", "AND", "OR", "XOR", "BYTE",
           "CALLDATALOAD", "MLOAD", "MSTORE", "MSTORE8", "SHL", "SHR", "SAR", "CALLDATACOPY", "CODECOPY",
           "RETURNDATACOPY", "MCOPY"}
LOW = {"MUL", "DIV", "SDIV", "MOD", "SMOD", "SIGNEXTEND", "SELFBALANCE"}
MID = {"ADDMOD", "MULMOD", "JUMP"}
ACCOUNT = {"BALANCE", "EXTCODESIZE", "EXTCODEHASH", "EXTCODECOPY"}


def push_bytes(v):
    return max(1, (v.bit_length() + 7) // 8)


def item_bytes(item, push0=True):
    name, value = item
    if name == "PUSH0":
        return 1 if push0 else 2
    if name == "PUSH":
        v = int(value, 16)
        if v == 0 and push0:
            return 1
        return 1 + push_bytes(v)
    if name == "tag":
        return 0
    if name in ("PUSH [tag]", "PUSH data", "PUSH [$]"):
        return 3
    if name in ("PUSH #[$]", "PUSHSIZE"):
        return 5
    if name in ("PUSHLIB", "PUSHDEPLOYADDRESS"):
        return 21
    if name == "PUSHIMMUTABLE":
        return 33
    if name == "ASSIGNIMMUTABLE":
        return 35
    return 1


def static_gas(name, value, push0=True, warm=False):
    if name in ("STOP", "RETURN", "REVERT", "INVALID", "tag"):
        return 0
    if name == "PUSH":
        if push0 and int(value, 16) == 0:
            return 2
        return 3
    if name == "PUSH0":
        return 2 if push0 else 3
    if name in BASE:
        return 2
    if name in VERYLOW or name.startswith("PUSH") or name.startswith("DUP") or name.startswith("SWAP"):
        return 3
    if name in LOW:
        return 5
    if name in MID:
        return 8
    if name == "JUMPI":
        return 10
    if name == "JUMPDEST":
        return 1
    if name in ACCOUNT:
        return 100 if warm else 2600
    if name == "SLOAD":
        return 100 if warm else 2100
    if name == "SSTORE":
        return (0 if warm else 2100) + 2900
    if name in ("CREATE", "CREATE2"):
        return 32000
    if name in ("CALL", "CALLCODE", "DELEGATECALL", "STATICCALL"):
        return 100
    if name.startswith("LOG"):
        return 375 + 375 * int(name[3:])
    if name == "BLOCKHASH":
        return 20
    if name == "EXP":
        return 60
    if name == "KECCAK256":
        return 30
    if name == "SHA3":
        return 36
    if name == "SELFDESTRUCT":
        return 5000
    return 0


def _norm(name, args, precise=True):
    if precise and name in COMMUT:
        args = tuple(sorted(args, key=repr))
    return (name,) + tuple(args)


def block_costs(items, push0=True, precise=False):
    """(gas, bytes, length) of a block by the independent model.  precise=False: key identity is
    syntactic identity of the symbolic term (the documented approximation); precise=True also
    identifies commutative variants and distinguishes loads separated by a write."""
    need, _ = evm.stack_need_and_delta(items)
    stack = [("in", i) for i in range(need)]       # index 0 = top
    gas = 0
    size = 0
    length = 0
    slots, accounts = set(), set()
    version = 0
    for name, value in items:
        size += item_bytes((name, value), push0)
        if name != "tag":
            length += 1
        pops, pushes = evm.arity(name)
        top = stack[0] if stack else None
        warm = False
        if name in ("SLOAD", "SSTORE"):
            warm = top in slots
            slots.add(top)
        elif name in ACCOUNT:
            warm = top in accounts
            accounts.add(top)
        gas += static_gas(name, value, push0, warm)
        # symbolic stack update
        if name == "PUSH":
            stack.insert(0, ("c", int(value, 16)))
        elif name == "PUSH0":
            stack.insert(0, ("c", 0))
        elif name.startswith("DUP"):
            stack.insert(0, stack[int(name[3:]) - 1])
        elif name.startswith("SWAP"):
            k = int(name[4:])
            stack[0], stack[k] = stack[k], stack[0]
        elif name in evm.PSEUDO_PUSH:
            stack.insert(0, ("p", name, value))
        else:
            args = [stack.pop(0) for _ in range(pops)]
            if name in ("MSTORE", "MSTORE8", "SSTORE") or name in evm.CALLS or name in ("CREATE", "CREATE2") \
                    or name.endswith("COPY"):
                version += 1
            if pushes:
                if name in ("MLOAD", "SLOAD", "KECCAK256", "SHA3", "GAS", "BALANCE", "SELFBALANCE", "EXTCODESIZE",
                            "EXTCODEHASH", "RETURNDATASIZE") or name in evm.CALLS or name in ("CREATE", "CREATE2"):
                    stack.insert(0, _norm(name, args, precise) + ((("v", version),) if precise else ()))
                else:
                    stack.insert(0, _norm(name, args, precise))
    return gas, size, length
