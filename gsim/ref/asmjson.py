"""R5 -- independent reader/writer for the files gasol consumes and emits.

Nothing here imports /repo.  Items are (name, value) pairs, see ref/evm.py.
"""
import json
import re

BLOCK_END = ("JUMP", "JUMPI", "STOP", "RETURN", "REVERT", "INVALID")   # parser_asm does not cut at SELFDESTRUCT
END_SET = {"JUMP", "JUMPI", "STOP", "RETURN", "REVERT", "INVALID", "SELFDESTRUCT"}
BEGIN_SET = {"tag", "JUMPDEST"}
SPLIT_SET = {"LOG0", "LOG1", "LOG2", "LOG3", "LOG4", "CALLDATACOPY", "CODECOPY", "EXTCODECOPY", "RETURNDATACOPY",
             "CALL", "STATICCALL", "DELEGATECALL", "CREATE", "CREATE2", "ASSIGNIMMUTABLE", "GAS"}
STORE_SET = {"SSTORE", "MSTORE", "MSTORE8"}


def item_of(entry):
    return (entry["name"], entry.get("value"))


def items_of_code(code):
    return [item_of(e) for e in code]


def cut_blocks(code):
    """Cut a .code list (of JSON entries or items) into basic blocks by our own rule:
    a block ends after JUMP/JUMPI/STOP/RETURN/REVERT/INVALID and before a tag."""
    blocks = []
    cur = []
    for e in code:
        name = e["name"] if isinstance(e, dict) else e[0]
        if name == "tag":
            if cur:
                blocks.append(cur)
            cur = [e]
        elif name in BLOCK_END:
            cur.append(e)
            blocks.append(cur)
            cur = []
        else:
            cur.append(e)
    if cur:
        blocks.append(cur)
    return blocks


def code_sections(doc_contract_asm):
    """Yield (path, code list) for every .code section of one contract's asm object (recursively)."""
    out = []

    def walk(obj, path):
        if not isinstance(obj, dict):
            return
        if ".code" in obj:
            out.append((path + "/.code", obj[".code"]))
        data = obj.get(".data")
        if isinstance(data, dict):
            for k in data:
                walk(data[k], path + "/.data/" + str(k))
    walk(doc_contract_asm, "")
    return out


def contracts_of(doc):
    """combined-json document -> list of (contract key, asm object or None)"""
    return [(k, (v or {}).get("asm")) for k, v in doc["contracts"].items()]


# ---- plain text --------------------------------------------------------------------------

def norm_hex(v):
    return "%x" % int(v, 16)


def item_to_text(item, style=0):
    """Render one item for a -bl input file."""
    name, value = item
    if name == "PUSH":
        iv = int(value, 16)
        n = max(1, (iv.bit_length() + 7) // 8)
        if style == 1:
            return "PUSH%d %d" % (n, iv)           # decimal operand
        if style == 2:
            return "PUSH %x" % iv                  # assembly spelling: hex without prefix
        if style == 3:
            return "PUSH%d 0x%0*x" % (n, 2 * n, iv)   # leading zeros
        return "PUSH%d 0x%x" % (n, iv)
    if name == "PUSH0":
        return "PUSH0"
    if value is not None and name in ("PUSH [tag]", "PUSH data", "PUSH #[$]", "PUSH [$]", "PUSHLIB",
                                       "PUSHIMMUTABLE", "ASSIGNIMMUTABLE", "tag"):
        return "%s %s" % (name, value)
    return name


def items_to_text(items, style=0):
    return " ".join(item_to_text(it, style) for it in items)


_PUSHN = re.compile(r"PUSH([0-9]+)$")


def parse_plain_output(text):
    """Tokenise the text gasol writes for -bl (to_plain_with_byte_number): one block per line.
    Pseudo pushes lose their operand in that rendering; callers do not feed them in -bl mode."""
    blocks = []
    for line in text.split("\n"):
        toks = line.split()
        items = []
        i = 0
        while i < len(toks):
            t = toks[i]
            m = _PUSHN.match(t)
            if t == "PUSH0":
                items.append(("PUSH", "0"))
            elif m:
                items.append(("PUSH", norm_hex(toks[i + 1])))
                i += 1
            elif t == "PUSH" and i + 1 < len(toks) and toks[i + 1] in ("[tag]", "data", "#[$]", "[$]"):
                items.append(("PUSH " + toks[i + 1], None))
                i += 1
            elif t in ("JUMP", "JUMPI") and i + 1 < len(toks) and toks[i + 1].startswith("["):
                items.append((t, None))
                i += 1
            else:
                items.append((t, None))
            i += 1
        blocks.append(items)
    return blocks


def canon_item(item):
    """Canonical form for comparing input and output items: PUSH0 == PUSH 0, hex normalised."""
    name, value = item
    if name == "PUSH0":
        return ("PUSH", "0")
    if name == "PUSH" and value is not None:
        try:
            return ("PUSH", norm_hex(value))
        except ValueError:
            return (name, value)
    return (name, value)


def canon_items(items):
    return [canon_item(i) for i in items]


def optimizable(items):
    return [i for i in items if i[0] not in BEGIN_SET and i[0] not in END_SET]


def load_doc(text):
    return json.loads(text)
