"""R2 -- symbolic stack executor over instruction ids: does a sequence *realize* a specification?

q realizes S iff, executed from S.src_ws: no underflow; DUP/SWAP k in 1..16 and within the current
height; every uninterpreted id pops exactly the cells its inpt_sk names (either order iff commutative)
and pushes its outpt_sk; every `storage: true` id occurs exactly once; for every pair in
dependencies all occurrences of the first precede all occurrences of the second; the final stack
equals tgt_ws.  Also reports length and peak height.  Nothing here imports /repo.
"""
import re

_DUP = re.compile(r"DUP(\d+)\Z")
_SWAP = re.compile(r"SWAP(\d+)\Z")


class Verdict:
    def __init__(self, ok, kind=None, detail="", length=0, peak=0):
        self.ok = ok
        self.kind = kind
        self.detail = detail
        self.length = length
        self.peak = peak

    def __bool__(self):
        return self.ok


def _same(a, b):
    return str(a) == str(b)


def realizes(sfs, ids, max_len=None, max_height=None):
    instrs = {u["id"]: u for u in sfs["user_instrs"]}
    stack = list(sfs["src_ws"])            # index 0 = top
    seq = [i for i in ids if i != "NOP"]
    # NOPs may only pad the end of the program
    raw = list(ids)
    if "NOP" in raw:
        first = raw.index("NOP")
        if any(x != "NOP" for x in raw[first:]):
            return Verdict(False, "nop-inside", "NOP followed by a real instruction at %d" % first)
    peak = len(stack)
    count = {}
    first_pos, last_pos = {}, {}
    for pos, i in enumerate(seq):
        count[i] = count.get(i, 0) + 1
        first_pos.setdefault(i, pos)
        last_pos[i] = pos
        m = _DUP.match(i)
        if m:
            k = int(m.group(1))
            if not 1 <= k <= 16 or k > len(stack):
                return Verdict(False, "dup-range", "%s at %d with height %d" % (i, pos, len(stack)))
            stack.insert(0, stack[k - 1])
        elif _SWAP.match(i):
            k = int(_SWAP.match(i).group(1))
            if not 1 <= k <= 16 or k + 1 > len(stack):
                return Verdict(False, "swap-range", "%s at %d with height %d" % (i, pos, len(stack)))
            stack[0], stack[k] = stack[k], stack[0]
        elif i == "POP":
            if not stack:
                return Verdict(False, "underflow", "POP at %d" % pos)
            stack.pop(0)
        elif i in instrs:
            u = instrs[i]
            need = u["inpt_sk"]
            if len(stack) < len(need):
                return Verdict(False, "underflow", "%s at %d needs %d cells, height %d" % (i, pos, len(need), len(stack)))
            got = stack[:len(need)]
            ok = all(_same(a, b) for a, b in zip(got, need))
            if not ok and u.get("commutative") and len(need) == 2:
                ok = _same(got[0], need[1]) and _same(got[1], need[0])
            if not ok:
                return Verdict(False, "wrong-operand", "%s at %d consumes %r, specification says %r" % (i, pos, got, need))
            del stack[:len(need)]
            for v in reversed(u["outpt_sk"]):
                stack.insert(0, v)
        else:
            return Verdict(False, "unknown-id", "%r at %d" % (i, pos))
        peak = max(peak, len(stack))
    for u in sfs["user_instrs"]:
        if u.get("storage") and count.get(u["id"], 0) != 1:
            return Verdict(False, "store-count", "%s occurs %d times" % (u["id"], count.get(u["id"], 0)))
    for a, b in sfs.get("dependencies", []):
        if a in last_pos and b in first_pos and last_pos[a] > first_pos[b]:
            return Verdict(False, "order-pair", "%s (last at %d) must precede %s (first at %d)" % (a, last_pos[a], b, first_pos[b]))
        if b in first_pos and a not in first_pos and instrs.get(a, {}).get("storage"):
            return Verdict(False, "order-pair", "%s missing before %s" % (a, b))
    tgt = list(sfs["tgt_ws"])
    if len(stack) != len(tgt) or not all(_same(a, b) for a, b in zip(stack, tgt)):
        return Verdict(False, "final-stack", "final stack %r, specification says %r" % (stack[:8], tgt[:8]))
    if max_len is not None and len(seq) > max_len:
        return Verdict(False, "length-bound", "length %d > %d" % (len(seq), max_len), len(seq), peak)
    if max_height is not None and peak > max_height:
        return Verdict(False, "height-bound", "peak height %d > %d" % (peak, max_height), len(seq), peak)
    return Verdict(True, None, "", len(seq), peak)
