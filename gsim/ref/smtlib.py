"""Own SMT-LIB reader: s-expression parser, declaration table, arity/sort checker (C06)."""


class SmtError(Exception):
    pass


def tokenize(text):
    out = []
    i, n = 0, len(text)
    while i < n:
        c = text[i]
        if c in " \t\r\n":
            i += 1
        elif c == ";":
            while i < n and text[i] != "\n":
                i += 1
        elif c in "()":
            out.append(c)
            i += 1
        elif c == '"':
            j = text.index('"', i + 1)
            out.append(text[i:j + 1])
            i = j + 1
        else:
            j = i
            while j < n and text[j] not in " \t\r\n()":
                j += 1
            out.append(text[i:j])
            i = j
    return out


def parse(text):
    toks = tokenize(text)
    pos = 0
    cmds = []

    def rd():
        nonlocal pos
        if pos >= len(toks):
            raise SmtError("unexpected end of input")
        t = toks[pos]
        pos += 1
        if t == "(":
            l = []
            while True:
                if pos >= len(toks):
                    raise SmtError("unbalanced parenthesis")
                if toks[pos] == ")":
                    pos += 1
                    return l
                l.append(rd())
        if t == ")":
            raise SmtError("unexpected )")
        return t
    while pos < len(toks):
        cmds.append(rd())
    return cmds


def _is_int(t):
    return isinstance(t, str) and (t.isdigit() or (t.startswith("-") and t[1:].isdigit()))


def check(text):
    """Returns a list of problems (empty = well formed).  Every symbol declared exactly once and used at
    its declared arity and sort."""
    problems = []
    try:
        cmds = parse(text)
    except SmtError as e:
        return ["syntax: %s" % e]
    sorts = {"Int", "Bool"}
    funs = {}

    def sort_of(t):
        if isinstance(t, str):
            if _is_int(t):
                return "Int"
            if t in ("true", "false"):
                return "Bool"
            if t not in funs:
                raise SmtError("undeclared symbol %s" % t)
            dom, rng = funs[t]
            if dom:
                raise SmtError("%s used with 0 arguments, declared with %d" % (t, len(dom)))
            return rng
        if not t:
            raise SmtError("empty application")
        head = t[0]
        args = t[1:]
        if not isinstance(head, str):
            raise SmtError("application head is not a symbol")
        if head in ("and", "or"):
            for a in args:
                if sort_of(a) != "Bool":
                    raise SmtError("%s applied to non-Bool" % head)
            if not args:
                raise SmtError("%s without arguments" % head)
            return "Bool"
        if head == "not":
            if len(args) != 1 or sort_of(args[0]) != "Bool":
                raise SmtError("not applied to %d args / non-Bool" % len(args))
            return "Bool"
        if head == "=>":
            if len(args) < 2 or any(sort_of(a) != "Bool" for a in args):
                raise SmtError("=> applied wrongly")
            return "Bool"
        if head in ("=", "distinct"):
            if len(args) < 2:
                raise SmtError("%s with %d args" % (head, len(args)))
            ss = [sort_of(a) for a in args]
            if len(set(ss)) != 1:
                raise SmtError("%s between different sorts %s" % (head, ss))
            return "Bool"
        if head in ("<", "<=", ">", ">="):
            if len(args) < 2 or any(sort_of(a) != "Int" for a in args):
                raise SmtError("%s applied to non-Int" % head)
            return "Bool"
        if head in ("+", "-", "*"):
            if not args or any(sort_of(a) != "Int" for a in args):
                raise SmtError("%s applied to non-Int" % head)
            return "Int"
        if head == "ite":
            if len(args) != 3 or sort_of(args[0]) != "Bool" or sort_of(args[1]) != sort_of(args[2]):
                raise SmtError("ill-sorted ite")
            return sort_of(args[1])
        if head not in funs:
            raise SmtError("undeclared function %s" % head)
        dom, rng = funs[head]
        if len(dom) != len(args):
            raise SmtError("%s used with %d arguments, declared with %d" % (head, len(args), len(dom)))
        for a, d in zip(args, dom):
            s = sort_of(a)
            if s != d:
                raise SmtError("%s argument of sort %s, declared %s" % (head, s, d))
        return rng
    for c in cmds:
        if not isinstance(c, list) or not c:
            problems.append("top-level atom %r" % (c,))
            continue
        k = c[0]
        try:
            if k == "declare-sort":
                if c[1] in sorts:
                    problems.append("sort %s declared twice" % c[1])
                sorts.add(c[1])
            elif k == "declare-fun":
                name, dom, rng = c[1], c[2], c[3]
                if name in funs:
                    problems.append("symbol %s declared twice" % name)
                for s in list(dom) + [rng]:
                    if s not in sorts:
                        problems.append("symbol %s uses undeclared sort %s" % (name, s))
                funs[name] = (list(dom), rng)
            elif k == "assert":
                if sort_of(c[1]) != "Bool":
                    problems.append("assert of non-Bool term")
            elif k == "assert-soft":
                if sort_of(c[1]) != "Bool":
                    problems.append("assert-soft of non-Bool term")
            elif k == "minimize":
                pass
        except SmtError as e:
            problems.append("%s: %s" % (k, e))
        except (IndexError, TypeError) as e:
            problems.append("%s: malformed command (%s)" % (k, e))
        if len(problems) > 5:
            break
    return problems
