"""R3 -- evaluate a specification (SFS) on a concrete state under a chosen schedule of its operations.

Every user_instrs entry is a task.  A task is enabled when the producers of all its inputs have run and
every declared predecessor (storage/memory `dependencies`) has run; program order is deliberately not
used.  Semantics of each operation come from R1 (ref/evm.py).  Nothing here imports /repo.
"""
from gsim.ref import evm


class SpecError(Exception):
    pass


def parse_plain_instr(ins):
    """'PUSH 8' / 'PUSH [tag] 27' / 'DUP2' in the front-end's plain spelling -> item."""
    toks = ins.split(" ")
    if toks[0] == "PUSH" and len(toks) == 3:
        return ("PUSH " + toks[1], toks[2])
    if toks[0] == "PUSH" and len(toks) == 2:
        return ("PUSH", "%x" % int(toks[1], 16))
    if toks[0] in ("PUSHLIB", "PUSHIMMUTABLE", "ASSIGNIMMUTABLE", "tag") and len(toks) == 2:
        return (toks[0], toks[1])
    if toks[0] == "PUSH0":
        return ("PUSH", "0")
    return (toks[0], None)


def items_of_plain(instrs):
    return [parse_plain_instr(i) for i in instrs]


class Spec:
    def __init__(self, sfs):
        self.src = list(sfs["src_ws"])
        self.tgt = list(sfs["tgt_ws"])
        self.instrs = {u["id"]: u for u in sfs["user_instrs"]}
        self.order = [u["id"] for u in sfs["user_instrs"]]
        self.producer = {}
        for u in sfs["user_instrs"]:
            for v in u["outpt_sk"]:
                if v in self.producer:
                    raise SpecError("variable %s produced twice" % v)
                self.producer[v] = u["id"]
        self.deps = [tuple(d) for d in sfs.get("dependencies", [])]
        for a, b in self.deps:
            if a not in self.instrs or b not in self.instrs:
                raise SpecError("dependency names unknown instruction %s/%s" % (a, b))
        self.pred = {i: set() for i in self.instrs}
        for a, b in self.deps:
            self.pred[b].add(a)
        self.data_pred = {i: set() for i in self.instrs}
        for u in sfs["user_instrs"]:
            for v in u["inpt_sk"]:
                if isinstance(v, str) and v in self.producer:
                    self.data_pred[u["id"]].add(self.producer[v])
                elif isinstance(v, str) and v not in self.src:
                    raise SpecError("input %s of %s is neither produced nor on the source stack" % (v, u["id"]))

    def all_pred(self, i):
        return self.pred[i] | self.data_pred[i]

    def closure(self):
        """transitive closure of deps ∪ data flow: before[i] = set of tasks that must precede i"""
        before = {}

        def go(i):
            if i in before:
                return before[i]
            before[i] = set()
            acc = set()
            for p in self.all_pred(i):
                acc.add(p)
                acc |= go(p)
            before[i] = acc
            return acc
        for i in self.instrs:
            go(i)
        return before


def spelled_value(u):
    """Operand string of a push-like spec instruction, spelled as the assembly item spells it."""
    v = u["value"][0]
    if u["disasm"] == "PUSH [tag]":
        return str(v)
    if u["disasm"] in ("PUSHLIB",):
        return str(v)
    return "%x" % int(v)


def run_schedule(spec, state, schedule_fn, extra_edges=()):
    """Execute all tasks; schedule_fn(enabled list, done list) picks the next task id.
    Returns (result like evm.Result, access log, schedule)."""
    m = evm.Machine(state)
    base = list(m.stack)
    n_src = len(spec.src)
    if len(base) < n_src:
        raise SpecError("state has %d stack words, specification needs %d" % (len(base), n_src))
    env = {}
    top_first = list(reversed(base))
    for i, v in enumerate(spec.src):
        env[v] = top_first[i]
    done = []
    done_set = set()
    extra = {}
    for a, b in extra_edges:
        extra.setdefault(b, set()).add(a)
    remaining = list(spec.order)
    accesses = []
    while remaining:
        enabled = [i for i in remaining if spec.all_pred(i) <= done_set and extra.get(i, set()) <= done_set]
        if not enabled:
            raise SpecError("cyclic ordering constraints among %r" % remaining[:6])
        i = schedule_fn(enabled, done)
        u = spec.instrs[i]
        args = []
        for v in u["inpt_sk"]:
            if isinstance(v, str):
                if v not in env:
                    raise SpecError("%s reads %s before it is defined" % (i, v))
                args.append(env[v])
            else:
                args.append(int(v) % evm.TT256)
        name = u["disasm"]
        m.stack = list(reversed(args))          # inpt_sk[0] is the top of the stack
        value = None
        if name == "PUSH":
            value = "%x" % (int(u["value"][0]) % evm.TT256)
        elif name == "PUSH0":
            name, value = "PUSH", "0"
        elif name in evm.PSEUDO_PUSH and "value" in u:
            value = spelled_value(u)
        if name in ("MLOAD", "MSTORE", "MSTORE8", "SLOAD", "SSTORE", "KECCAK256", "SHA3"):
            accesses.append((i, name, tuple(args)))
        m.step(name, value)
        if u["outpt_sk"]:
            if len(m.stack) != 1:
                raise SpecError("%s (%s) left %d values" % (i, name, len(m.stack)))
            env[u["outpt_sk"][0]] = m.stack.pop()
        elif m.stack:
            raise SpecError("%s (%s) has no output variable but left a value" % (i, name))
        remaining.remove(i)
        done.append(i)
        done_set.add(i)
    final = []
    for v in spec.tgt:
        if isinstance(v, str):
            if v not in env:
                raise SpecError("target stack names undefined variable %s" % v)
            final.append(env[v])
        else:
            final.append(int(v) % evm.TT256)
    final += top_first[n_src:]
    m.stack = list(reversed(final))
    res = m.run([])
    return res, accesses, done


def byte_range(name, args):
    """(space, lo, hi) touched by an access; hi exclusive."""
    if name == "MLOAD":
        return ("m", args[0], args[0] + 32, False)
    if name == "MSTORE":
        return ("m", args[0], args[0] + 32, True)
    if name == "MSTORE8":
        return ("m", args[0], args[0] + 1, True)
    if name in ("KECCAK256", "SHA3"):
        return ("m", args[0], args[0] + args[1], False)
    if name == "SLOAD":
        return ("s", args[0], args[0] + 1, False)
    if name == "SSTORE":
        return ("s", args[0], args[0] + 1, True)
    return None


def colliding_unordered_pairs(spec, accesses):
    """Pairs of accesses (at least one store) unordered in the closure whose ranges overlap on this state."""
    before = spec.closure()
    out = []
    acc = [(i, byte_range(n, a)) for i, n, a in accesses]
    for x in range(len(acc)):
        for y in range(x + 1, len(acc)):
            (i, r1), (j, r2) = acc[x], acc[y]
            if r1 is None or r2 is None or r1[0] != r2[0] or not (r1[3] or r2[3]):
                continue
            if r1[1] < r2[2] and r2[1] < r1[2] and i not in before[j] and j not in before[i]:
                out.append((i, j))
    return out
