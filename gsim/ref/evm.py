"""R1 -- concrete reference interpreter for one basic block of solc assembly items.

Independent of /repo: nothing here imports the system under test.

An *item* is a pair (name, value): name is the solc assembly item name ("PUSH", "PUSH [tag]",
"DUP2", "ADD", "tag", ...), value is the hex string carried by the item or None.

Observables (C01): the ordered list of externally visible events, and -- when execution falls
through the end of the block -- the final stack, the memory bytes and the storage.
"""
import hashlib

M256 = (1 << 256) - 1
TT256 = 1 << 256
TT255 = 1 << 255
M160 = (1 << 160) - 1

TERMINAL = {"JUMP", "JUMPI", "STOP", "RETURN", "REVERT", "INVALID", "SELFDESTRUCT"}
CALLS = {"CALL": 7, "CALLCODE": 7, "DELEGATECALL": 6, "STATICCALL": 6}
PSEUDO_PUSH = {"PUSH [tag]", "PUSH data", "PUSHLIB", "PUSHIMMUTABLE", "PUSH #[$]", "PUSH [$]",
               "PUSHSIZE", "PUSHDEPLOYADDRESS"}
ENV0 = ["ADDRESS", "ORIGIN", "CALLER", "CALLVALUE", "CALLDATASIZE", "CODESIZE", "GASPRICE",
        "COINBASE", "TIMESTAMP", "NUMBER", "DIFFICULTY", "PREVRANDAO", "GASLIMIT", "CHAINID",
        "BASEFEE"]
ADDR_LIKE = {"ADDRESS", "ORIGIN", "CALLER", "COINBASE"}

# name -> (pops, pushes)
ARITY = {
    "STOP": (0, 0), "ADD": (2, 1), "MUL": (2, 1), "SUB": (2, 1), "DIV": (2, 1), "SDIV": (2, 1),
    "MOD": (2, 1), "SMOD": (2, 1), "ADDMOD": (3, 1), "MULMOD": (3, 1), "EXP": (2, 1),
    "SIGNEXTEND": (2, 1), "LT": (2, 1), "GT": (2, 1), "SLT": (2, 1), "SGT": (2, 1), "EQ": (2, 1),
    "ISZERO": (1, 1), "AND": (2, 1), "OR": (2, 1), "XOR": (2, 1), "NOT": (1, 1), "BYTE": (2, 1),
    "SHL": (2, 1), "SHR": (2, 1), "SAR": (2, 1), "SHA3": (2, 1), "KECCAK256": (2, 1),
    "BALANCE": (1, 1), "CALLDATALOAD": (1, 1), "CALLDATACOPY": (3, 0), "CODECOPY": (3, 0), "MCOPY": (3, 0),
    "EXTCODESIZE": (1, 1), "EXTCODECOPY": (4, 0), "EXTCODEHASH": (1, 1), "BLOCKHASH": (1, 1),
    "SELFBALANCE": (0, 1), "RETURNDATASIZE": (0, 1), "RETURNDATACOPY": (3, 0),
    "POP": (1, 0), "MLOAD": (1, 1), "MSTORE": (2, 0), "MSTORE8": (2, 0), "SLOAD": (1, 1),
    "SSTORE": (2, 0), "JUMP": (1, 0), "JUMPI": (2, 0), "GAS": (0, 1), "JUMPDEST": (0, 0),
    "LOG0": (2, 0), "LOG1": (3, 0), "LOG2": (4, 0), "LOG3": (5, 0), "LOG4": (6, 0),
    "CREATE": (3, 1), "CALL": (7, 1), "CALLCODE": (7, 1), "RETURN": (2, 0), "REVERT": (2, 0),
    "DELEGATECALL": (6, 1), "STATICCALL": (6, 1), "CREATE2": (4, 1), "INVALID": (0, 0),
    "SELFDESTRUCT": (1, 0), "ASSIGNIMMUTABLE": (2, 0), "tag": (0, 0), "PUSH": (0, 1), "PUSH0": (0, 1),
}
for _n in ENV0:
    ARITY[_n] = (0, 1)
for _n in PSEUDO_PUSH:
    ARITY[_n] = (0, 1)
for _i in range(1, 17):
    ARITY["DUP%d" % _i] = (_i, _i + 1)
    ARITY["SWAP%d" % _i] = (_i + 1, _i + 1)


class Unsupported(Exception):
    pass


def arity(name):
    try:
        return ARITY[name]
    except KeyError:
        raise Unsupported(name)


def stack_need_and_delta(items):
    """Minimum input stack depth the sequence needs, and its net stack height change."""
    h = 0
    need = 0
    for name, _ in items:
        pops, pushes = arity(name)
        if h - pops < -need:
            need = pops - h
        h += pushes - pops
    return need, h


def _h(*parts):
    m = hashlib.blake2b(digest_size=32)
    for p in parts:
        m.update(repr(p).encode())
        m.update(b"|")
    return int.from_bytes(m.digest(), "big")


def to_signed(x):
    return x - TT256 if x >= TT255 else x


def pseudo_value(name, value):
    """Injective seeded constant for a pseudo push (kind, real value)."""
    if name == "PUSH [tag]":
        # tags stay recognisable in JUMP events but never collide with small literals
        return (0x7A6 << 64) | (int(str(value), 16) if value is not None else 0)
    key = str(value)
    if name in ("PUSH data", "PUSHLIB", "PUSHIMMUTABLE", "PUSH #[$]", "PUSH [$]"):
        try:
            key = "%x" % int(key, 16)        # hex numbers for the assembler: case/leading zeros irrelevant
        except ValueError:
            pass
    v = _h("pseudo", name, key)
    if name in ("PUSHLIB", "PUSHDEPLOYADDRESS"):
        return v & M160
    if name in ("PUSH #[$]", "PUSH [$]", "PUSH data", "PUSHSIZE"):
        return (v & 0xFFFFFF) | 0x1000000
    return v


class State:
    """Initial machine state. Deterministic function of its fields (all plain data)."""

    def __init__(self, stack, seed, mem_mode="noise", sto_mode="noise", env=None, mem_init=None, sto_init=None):
        self.stack = list(stack)          # index 0 = top of the stack
        self.seed = seed
        self.mem_mode = mem_mode          # 'zero' | 'noise'
        self.sto_mode = sto_mode
        self.env = env or {}
        self.mem_init = dict(mem_init or {})   # addr -> byte
        self.sto_init = dict(sto_init or {})   # key -> word

    def to_json(self):
        return {"stack": [hex(x) for x in self.stack], "seed": self.seed, "mem_mode": self.mem_mode,
                "sto_mode": self.sto_mode, "env": {k: hex(v) for k, v in sorted(self.env.items())},
                "mem_init": {hex(k): v for k, v in sorted(self.mem_init.items())},
                "sto_init": {hex(k): hex(v) for k, v in sorted(self.sto_init.items())}}

    @staticmethod
    def from_json(j):
        return State([int(x, 16) for x in j["stack"]], j["seed"], j["mem_mode"], j["sto_mode"],
                     {k: int(v, 16) for k, v in j["env"].items()},
                     {int(k, 16): v for k, v in j["mem_init"].items()},
                     {int(k, 16): int(v, 16) for k, v in j["sto_init"].items()})


class Result:
    __slots__ = ("events", "halted", "stack", "mem", "sto", "error", "steps")

    def observable(self):
        if self.error:
            return ("error", self.error)
        if self.halted:
            return ("halt", tuple(self.events))
        return ("fall", tuple(self.events), tuple(self.stack), self.mem, self.sto)


class Machine:
    def __init__(self, state):
        self.st = state
        self.stack = list(reversed(state.stack))   # top at the end
        self.mem = {}
        self.sto = {}
        self.epoch = 0
        self.events = []
        self.gas_n = 0
        self.mem_writes = 0

    # ---- memory ------------------------------------------------------------------------
    def mem_default(self, a):
        st = self.st
        if a in st.mem_init:
            return st.mem_init[a]
        if st.mem_mode == "zero":
            return 0
        x = (a ^ st.seed) & 0xFFFFFFFFFFFFFFFF
        x = (x * 0x9E3779B97F4A7C15 + (a >> 64)) & 0xFFFFFFFFFFFFFFFF
        return (x >> 29) & 0xFF

    def mem_get(self, a):
        v = self.mem.get(a)
        return self.mem_default(a) if v is None else v

    def mload(self, a):
        r = 0
        for i in range(32):
            r = (r << 8) | self.mem_get(a + i)
        return r

    def mstore(self, a, v):
        for i in range(32):
            self.mem[a + 31 - i] = (v >> (8 * i)) & 0xFF

    def mem_slice(self, off, size):
        """Canonical description of memory bytes [off, off+size)."""
        if size == 0:
            return ("empty",)
        if size <= 4096:
            return ("bytes", hashlib.blake2b(bytes(self.mem_get(off + i) for i in range(size)),
                                             digest_size=16).hexdigest())
        over = tuple(sorted((a, v) for a, v in self.mem.items()
                            if off <= a < off + size and v != self.mem_default(a)))
        return ("range", off, size, over)

    def mem_fill(self, off, size, tag):
        n = min(size, 2048)
        for i in range(n):
            self.mem[off + i] = _h("fill", self.st.seed, tag, i >> 5) >> (8 * (i & 31)) & 0xFF

    # ---- storage -----------------------------------------------------------------------
    def sto_default(self, k):
        st = self.st
        if self.epoch == 0 and k in st.sto_init:
            return st.sto_init[k]
        if st.sto_mode == "zero" and self.epoch == 0:
            return 0
        v = _h("sto", st.seed, self.epoch, k)
        # small values are common in real storage and make folding errors visible
        return v if v & 3 else v & 0xFF

    def sload(self, k):
        v = self.sto.get(k)
        return self.sto_default(k) if v is None else v

    def sto_digest(self):
        return tuple(sorted((k, v) for k, v in self.sto.items() if v != self.sto_default(k)))

    # ---- environment -------------------------------------------------------------------
    def env0(self, name):
        if name == "PREVRANDAO":
            name = "DIFFICULTY"
        if name in self.st.env:
            return self.st.env[name]
        v = _h("env", self.st.seed, name)
        if name in ADDR_LIKE:
            return v & M160
        if name in ("CALLDATASIZE", "CODESIZE", "TIMESTAMP", "NUMBER", "CHAINID"):
            return v & 0xFFFFFFFF
        return v

    def balance(self, a):
        a &= M160
        return _h("bal", self.st.seed, self.epoch, a)

    def external_epoch(self):
        """A call-like instruction: anything outside may have changed."""
        self.epoch += 1
        self.sto = {}

    # ---- execution ---------------------------------------------------------------------
    def pop(self):
        if not self.stack:
            raise IndexError("stack underflow")
        return self.stack.pop()

    def push(self, v):
        self.stack.append(v & M256)

    def run(self, items, max_steps=100000):
        res = Result()
        res.error = None
        res.halted = False
        steps = 0
        try:
            for name, value in items:
                steps += 1
                if self.step(name, value):
                    res.halted = True
                    break
        except IndexError:
            res.error = "underflow@%d" % steps
        res.steps = steps
        res.events = self.events
        res.stack = list(reversed(self.stack))
        res.mem = tuple(sorted((a, v) for a, v in self.mem.items() if v != self.mem_default(a)))
        res.sto = (self.epoch, tuple(sorted((k, v) for k, v in self.sto.items() if v != self.sto_default(k))))
        return res

    def step(self, name, value):
        pop, push = self.pop, self.push
        if name == "PUSH":
            push(int(value, 16))
        elif name == "PUSH0":
            push(0)
        elif name.startswith("DUP"):
            k = int(name[3:])
            if len(self.stack) < k:
                raise IndexError
            push(self.stack[-k])
        elif name.startswith("SWAP"):
            k = int(name[4:])
            if len(self.stack) < k + 1:
                raise IndexError
            s = self.stack
            s[-1], s[-k - 1] = s[-k - 1], s[-1]
        elif name == "POP":
            pop()
        elif name in ("tag", "JUMPDEST"):
            pass
        elif name in PSEUDO_PUSH:
            push(pseudo_value(name, value))
        elif name == "ADD":
            push(pop() + pop())
        elif name == "MUL":
            push(pop() * pop())
        elif name == "SUB":
            a, b = pop(), pop()
            push(a - b)
        elif name == "DIV":
            a, b = pop(), pop()
            push(0 if b == 0 else a // b)
        elif name == "SDIV":
            a, b = to_signed(pop()), to_signed(pop())
            if b == 0:
                push(0)
            else:
                q = abs(a) // abs(b)
                push(q if (a < 0) == (b < 0) else -q)
        elif name == "MOD":
            a, b = pop(), pop()
            push(0 if b == 0 else a % b)
        elif name == "SMOD":
            a, b = to_signed(pop()), to_signed(pop())
            if b == 0:
                push(0)
            else:
                r = abs(a) % abs(b)
                push(-r if a < 0 else r)
        elif name == "ADDMOD":
            a, b, n = pop(), pop(), pop()
            push(0 if n == 0 else (a + b) % n)
        elif name == "MULMOD":
            a, b, n = pop(), pop(), pop()
            push(0 if n == 0 else (a * b) % n)
        elif name == "EXP":
            a, b = pop(), pop()
            push(pow(a, b, TT256))
        elif name == "SIGNEXTEND":
            b, x = pop(), pop()
            if b < 31:
                t = 8 * b + 7
                if (x >> t) & 1:
                    push(x | (TT256 - (1 << t)))
                else:
                    push(x & ((1 << t) - 1))
            else:
                push(x)
        elif name == "LT":
            a, b = pop(), pop()
            push(1 if a < b else 0)
        elif name == "GT":
            a, b = pop(), pop()
            push(1 if a > b else 0)
        elif name == "SLT":
            a, b = to_signed(pop()), to_signed(pop())
            push(1 if a < b else 0)
        elif name == "SGT":
            a, b = to_signed(pop()), to_signed(pop())
            push(1 if a > b else 0)
        elif name == "EQ":
            push(1 if pop() == pop() else 0)
        elif name == "ISZERO":
            push(1 if pop() == 0 else 0)
        elif name == "AND":
            push(pop() & pop())
        elif name == "OR":
            push(pop() | pop())
        elif name == "XOR":
            push(pop() ^ pop())
        elif name == "NOT":
            push(M256 ^ pop())
        elif name == "BYTE":
            i, x = pop(), pop()
            push(0 if i >= 32 else (x >> (8 * (31 - i))) & 0xFF)
        elif name == "SHL":
            s, x = pop(), pop()
            push(0 if s >= 256 else x << s)
        elif name == "SHR":
            s, x = pop(), pop()
            push(0 if s >= 256 else x >> s)
        elif name == "SAR":
            s, x = pop(), to_signed(pop())
            if s >= 256:
                push(0 if x >= 0 else M256)
            else:
                push(x >> s)
        elif name in ("SHA3", "KECCAK256"):
            off, size = pop(), pop()
            push(_h("keccak", self.mem_slice(off, size)))
        elif name in ENV0:
            push(self.env0(name))
        elif name == "SELFBALANCE":
            push(self.balance(self.env0("ADDRESS")))
        elif name == "BALANCE":
            push(self.balance(pop()))
        elif name == "EXTCODESIZE":
            push(_h("extsize", self.st.seed, self.epoch, pop() & M160) & 0xFFFF)
        elif name == "EXTCODEHASH":
            push(_h("exthash", self.st.seed, self.epoch, pop() & M160))
        elif name == "BLOCKHASH":
            push(_h("blockhash", self.st.seed, pop()))
        elif name == "CALLDATALOAD":
            push(_h("cdl", self.st.seed, pop()))
        elif name == "RETURNDATASIZE":
            push(_h("rds", self.st.seed, self.epoch) & 0xFFFF)
        elif name == "GAS":
            self.gas_n += 1
            self.events.append(("GAS", self.gas_n))
            push(_h("gas", self.st.seed, self.gas_n))
        elif name == "MLOAD":
            push(self.mload(pop()))
        elif name == "MSTORE":
            a, v = pop(), pop()
            self.mstore(a, v)
        elif name == "MSTORE8":
            a, v = pop(), pop()
            self.mem[a] = v & 0xFF
        elif name == "SLOAD":
            push(self.sload(pop()))
        elif name == "SSTORE":
            k, v = pop(), pop()
            self.sto[k] = v
        elif name in ("LOG0", "LOG1", "LOG2", "LOG3", "LOG4"):
            off, size = pop(), pop()
            topics = tuple(pop() for _ in range(int(name[3])))
            self.events.append((name, self.mem_slice(off, size), topics))
        elif name in CALLS:
            n = CALLS[name]
            ops = tuple(pop() for _ in range(n))
            if n == 7:
                ao, asz, ro, rsz = ops[3], ops[4], ops[5], ops[6]
            else:
                ao, asz, ro, rsz = ops[2], ops[3], ops[4], ops[5]
            self.events.append((name, ops, self.mem_slice(ao, asz), self.sto_digest()))
            self.external_epoch()
            self.mem_fill(ro, rsz, ("ret", self.epoch))
            push(_h("callok", self.st.seed, self.epoch) & 1)
        elif name in ("CREATE", "CREATE2"):
            val, off, size = pop(), pop(), pop()
            salt = pop() if name == "CREATE2" else None
            self.events.append((name, val, self.mem_slice(off, size), salt, self.sto_digest()))
            self.external_epoch()
            push(_h("created", self.st.seed, self.epoch) & M160)
        elif name == "MCOPY":
            d, o, s = pop(), pop(), pop()
            n = min(s, 2048)
            data = [self.mem_get(o + i) for i in range(n)]
            for i in range(n):
                self.mem[d + i] = data[i]
        elif name == "CALLDATACOPY":
            d, o, s = pop(), pop(), pop()
            self.events.append((name, d, o, s))
            self.mem_fill(d, s, ("cd", o))
        elif name == "CODECOPY":
            d, o, s = pop(), pop(), pop()
            self.events.append((name, d, o, s))
            self.mem_fill(d, s, ("code", o))
        elif name == "RETURNDATACOPY":
            d, o, s = pop(), pop(), pop()
            self.events.append((name, d, o, s))
            self.mem_fill(d, s, ("rd", self.epoch, o))
        elif name == "EXTCODECOPY":
            a, d, o, s = pop(), pop(), pop(), pop()
            self.events.append((name, a & M160, d, o, s))
            self.mem_fill(d, s, ("ext", self.epoch, a & M160, o))
        elif name == "ASSIGNIMMUTABLE":
            a, b = pop(), pop()
            self.events.append((name, str(value), a, b))
        elif name in ("RETURN", "REVERT"):
            off, size = pop(), pop()
            self.events.append((name, self.mem_slice(off, size), self.sto_digest() if name == "RETURN" else None))
            return True
        elif name == "STOP":
            self.events.append((name, self.sto_digest()))
            return True
        elif name == "INVALID":
            self.events.append((name,))
            return True
        elif name == "SELFDESTRUCT":
            self.events.append((name, pop() & M160, self.sto_digest()))
            return True
        elif name == "JUMP":
            self.events.append((name, pop()))
            return False
        elif name == "JUMPI":
            d, c = pop(), pop()
            self.events.append((name, d, 1 if c else 0))
            return False
        else:
            raise Unsupported(name)
        return False


def execute(items, state):
    return Machine(state).run(items)


def first_difference(r1, r2):
    """None if observationally equal, else a short class string + detail."""
    if r1.error or r2.error:
        if r1.error != r2.error:
            return ("error", "%s vs %s" % (r1.error, r2.error))
        return None
    n = min(len(r1.events), len(r2.events))
    for i in range(n):
        if r1.events[i] != r2.events[i]:
            e1, e2 = r1.events[i], r2.events[i]
            if e1[0] != e2[0]:
                return ("event-kind", "event %d: %s vs %s" % (i, e1[0], e2[0]))
            for f in range(1, max(len(e1), len(e2))):
                if f >= len(e1) or f >= len(e2) or e1[f] != e2[f]:
                    return ("event-field:%s:%d" % (e1[0], f), "event %d %s field %d differs" % (i, e1[0], f))
    if len(r1.events) != len(r2.events):
        return ("event-count", "%d vs %d events" % (len(r1.events), len(r2.events)))
    if r1.halted != r2.halted:
        return ("halt", "halted %s vs %s" % (r1.halted, r2.halted))
    if r1.halted:
        return None
    if len(r1.stack) != len(r2.stack):
        return ("stack-height", "%d vs %d" % (len(r1.stack), len(r2.stack)))
    for i, (a, b) in enumerate(zip(r1.stack, r2.stack)):
        if a != b:
            return ("stack", "stack[%d]: %x vs %x" % (i, a, b))
    if r1.mem != r2.mem:
        d = sorted(set(r1.mem) ^ set(r2.mem))
        return ("memory", "memory differs at %s" % (", ".join("%x" % a for a, _ in d[:4])))
    if r1.sto != r2.sto:
        return ("storage", "storage differs")
    return None


# ------------------------------------------------------------------------------------------
# seeded machine states

EDGE = [0, 1, 2, 31, 32, 33, 255, 256, TT255, TT255 - 1, TT255 + 1, M256, M256 - 1, M160, M160 + 1,
        (1 << 128), 0xFF, 0xFFFF, 64, 96, 128, 3, 4, 5, 7, 8, 16]


def harvest_constants(*item_lists):
    out = []
    for items in item_lists:
        for name, value in items:
            if name == "PUSH" and value is not None:
                try:
                    c = int(value, 16)
                except ValueError:
                    continue
                for d in (0, 1, -1, 31, -31, 32, -32):
                    out.append((c + d) & M256)
    # order-preserving de-dup
    seen = set()
    res = []
    for c in out:
        if c not in seen:
            seen.add(c)
            res.append(c)
    return res


def make_states(rng, depth, k, harvested=()):
    """k seeded states with a stack of `depth` words."""
    harvested = list(harvested)
    states = []
    for i in range(k):
        mode = i % 6
        seed = rng.getrandbits(48)
        stack = []
        pool_small = [0, 1, 2, 31, 32, 33, 64]
        for d in range(depth):
            r = rng.random()
            if mode == 0:
                v = rng.getrandbits(256)
            elif mode == 1:
                v = rng.choice(EDGE)
            elif mode == 2 and harvested:
                v = rng.choice(harvested) if r < 0.7 else rng.choice(EDGE)
            elif mode == 3:
                # aliasing: few distinct values, small offsets around each other
                base = [0, 32, 64, 1, 31][:]
                v = rng.choice(base) if r < 0.6 else (stack[rng.randrange(len(stack))] if stack else 0)
                if r > 0.85:
                    v = (v + rng.choice([1, -1, 31, 32, -32, 16])) & M256
            elif mode == 4:
                v = rng.choice(pool_small) if r < 0.5 else rng.getrandbits(rng.choice([8, 16, 160, 255, 256]))
            else:
                if r < 0.3 and stack:
                    v = stack[rng.randrange(len(stack))]
                elif r < 0.5 and harvested:
                    v = rng.choice(harvested)
                elif r < 0.7:
                    v = rng.choice(EDGE)
                else:
                    v = rng.getrandbits(256)
            stack.append(v & M256)
        env = {}
        if rng.random() < 0.3:
            env["CALLVALUE"] = rng.choice([0, 1, M256])
        st = State(stack, seed, mem_mode=rng.choice(["noise", "noise", "zero"]),
                   sto_mode=rng.choice(["noise", "noise", "zero"]), env=env)
        states.append(st)
    return states
