"""R6 -- brute-force synthesiser: all realizing sequences of a small specification, by layered
dynamic programming over (symbolic stack, ids executed) states.  Nothing here imports /repo."""
from gsim.ref import cost as R4


def _instr_cost(u, push0=True):
    """(gas, bytes) of one specification instruction by the independent cost model (context free)."""
    name = u["disasm"]
    value = None
    if name in ("PUSH",) and "value" in u:
        value = "%x" % int(u["value"][0])
    elif "value" in u:
        value = str(u["value"][0])
    if name == "PUSH0":
        return (2, 1) if push0 else (3, 2)
    return R4.static_gas(name, value, push0, False), R4.item_bytes((name, value), push0)


def search(sfs, max_len, max_height=None, max_states=400000, size_cap=None, push0=True, cost_override=None):
    """Returns dict: best[(criterion)] = min cost over realizing sequences of length <= max_len,
    'min_len', 'witness' (one shortest sequence), 'witness_gas' (one sequence of minimal gas),
    'exhausted' (False if the state budget was hit).  cost_override: id -> (gas, bytes), to steer the
    witness (e.g. make one instruction free so that the cheapest sequence repeats it)."""
    instrs = sfs["user_instrs"]
    byid = {u["id"]: u for u in instrs}
    deps = [tuple(d) for d in sfs.get("dependencies", [])]
    after = {}      # a -> set of b that must come after a
    before = {}
    for a, b in deps:
        after.setdefault(a, set()).add(b)
        before.setdefault(b, set()).add(a)
    track = set(u["id"] for u in instrs if u.get("storage")) | set(x for d in deps for x in d)
    stores = frozenset(u["id"] for u in instrs if u.get("storage"))
    src = tuple(sfs["src_ws"])
    tgt = tuple(str(x) for x in sfs["tgt_ws"])
    needed = set(tgt)
    for u in instrs:
        for v in u["inpt_sk"]:
            needed.add(str(v))
    costs = {u["id"]: _instr_cost(u, push0) for u in instrs}
    if size_cap is not None:
        costs = {k: (g, min(b, size_cap)) for k, (g, b) in costs.items()}
    if cost_override:
        costs.update(cost_override)
    witness_gas = None
    start = (tuple(str(x) for x in src), frozenset())
    layer = {start: (0, 0, ())}        # state -> (gas, bytes, witness)
    best = {"gas": None, "size": None, "length": None}
    witness = None
    seen_total = 0
    exhausted = True
    hmax = max_height if max_height is not None else 1 << 30
    for depth in range(0, max_len + 1):
        # terminal test
        for (stack, done), (g, s, w) in layer.items():
            if stack == tgt and stores <= done:
                if best["length"] is None:
                    best["length"] = depth
                    witness = list(w)
                if best["gas"] is None or g < best["gas"]:
                    witness_gas = list(w)
                best["gas"] = g if best["gas"] is None else min(best["gas"], g)
                best["size"] = s if best["size"] is None else min(best["size"], s)
        if depth == max_len:
            break
        nxt = {}

        def put(st, g, s, w):
            cur = nxt.get(st)
            if cur is None or (g, s) < (cur[0], cur[1]):
                nxt[st] = (g, s, w)
            elif cur is not None and s < cur[1]:
                # keep the better size too (approximate Pareto: store min of each separately)
                nxt[st] = (min(g, cur[0]), min(s, cur[1]), cur[2])
        for (stack, done), (g, s, w) in layer.items():
            h = len(stack)
            # stack operations
            if h:
                put((stack[1:], done), g + 2, s + 1, w + ("POP",))
            for k in range(1, min(h, 16) + 1):
                if h + 1 <= hmax:
                    put(((stack[k - 1],) + stack, done), g + 3, s + 1, w + ("DUP%d" % k,))
            for k in range(1, min(h - 1, 16) + 1):
                l = list(stack)
                l[0], l[k] = l[k], l[0]
                put((tuple(l), done), g + 3, s + 1, w + ("SWAP%d" % k,))
            for u in instrs:
                i = u["id"]
                if i in stores and i in done:
                    continue
                if any(b in done for b in after.get(i, ())):
                    continue          # some instruction that must come after i has already run
                if any(a in stores and a not in done for a in before.get(i, ())):
                    continue          # a store that must precede i has not run yet
                need = [str(v) for v in u["inpt_sk"]]
                n = len(need)
                if h < n:
                    continue
                got = list(stack[:n])
                ok = got == need or (u.get("commutative") and n == 2 and got == need[::-1])
                if not ok:
                    continue
                ns = tuple(str(v) for v in u["outpt_sk"]) + stack[n:]
                if len(ns) > hmax:
                    continue
                nd = done | {i} if i in track else done
                cg, cs = costs[i]
                put((ns, nd), g + cg, s + cs, w + (i,))
        seen_total += len(nxt)
        if seen_total > max_states:
            exhausted = False
            break
        layer = nxt
    return {"best": best, "witness": witness, "witness_gas": witness_gas, "exhausted": exhausted, "states": seen_total}
